#!/venv/bin/python
"""Differential equivalence check for patch_1.diff (incomplete_cooperative/run/save.py).

ORIGINAL = `git archive HEAD incomplete_cooperative` of the worktree, unpacked into a temporary directory.
REFACTORED = the worktree as it is (patch applied).  If the worktree has no local change in the package and
`patch_1.diff` lies next to this script, the refactored tree is built in the temporary directory instead
(HEAD export + `git apply`), so the script can also be run on a clean checkout.

Both trees run the same driver in separate interpreters; the canonicalised outcomes are compared exactly.
Exit status 0 iff everything is identical.
"""
import os
import pickle
import subprocess
import sys
import tempfile
from pathlib import Path

K = 1
WT = Path(os.environ.get("TWIN_WORKTREE", "/tmp/wt_x4_X10"))
PY = "/venv/bin/python"
HERE = Path(__file__).resolve().parent

DRIVER = r'''
import builtins, io, json, os, pickle, sys, traceback
from argparse import Namespace
from pathlib import Path, PurePosixPath

import numpy as np

out_file = sys.argv[1]
work = Path(sys.argv[2])
os.chdir(work)

import matplotlib
matplotlib.use("Agg")
import matplotlib.pyplot as plt

import incomplete_cooperative.run.save as save_mod
from incomplete_cooperative.run.save import (SAVERS, Output, approx_game, get_coalition_distribution,
                                             get_outputs, get_outputs_from_file, json_serializer, save,
                                             save_data_plot, save_draw_coalitions, save_json)

RESULTS = []
import time
T0 = time.time()


def lap(what):
    print(f"[driver] {what}: {time.time() - T0:.1f}s, {len(RESULTS)} outcomes", file=sys.stderr)


def canon(x):
    if isinstance(x, np.ndarray):
        return ("nd", str(x.dtype), x.shape, x.tobytes())
    if isinstance(x, np.generic):
        return ("np", str(x.dtype), x.tobytes())
    if isinstance(x, float):
        return ("f", x.hex())
    if isinstance(x, (bool, int, str, bytes, type(None))):
        return (type(x).__name__, x)
    if isinstance(x, (list, tuple)):
        return (type(x).__name__, [canon(y) for y in x])
    if isinstance(x, dict):
        return ("dict", [(canon(k), canon(v)) for k, v in x.items()])
    if isinstance(x, Namespace):
        return ("Namespace", canon(vars(x)))
    if isinstance(x, Output):
        return ("Output", canon(x.data), canon(x.actions), canon(x.parsed_args))
    if isinstance(x, Path):
        return ("Path", str(x))
    if isinstance(x, BaseException):
        return ("exc", type(x).__module__ + "." + type(x).__qualname__, str(x))
    return ("repr", type(x).__name__, repr(x))


def record(label, fn, *args, **kwargs):
    try:
        res = ("ok", canon(fn(*args, **kwargs)))
    except BaseException as e:  # noqa - KeyboardInterrupt is injected on purpose
        res = canon(e)
    RESULTS.append((label, res))


def tree(root):
    """Snapshot of a directory: names, kinds and the bytes of every file."""
    root = Path(root)
    if not root.exists():
        return ("missing",)
    if root.is_file():
        return ("file", root.read_bytes())
    snap = []
    for p in sorted(root.rglob("*")):
        rel = str(p.relative_to(root))
        snap.append((rel, "dir") if p.is_dir() else (rel, "file", p.read_bytes()))
    return ("dir", snap)


class EntryPoint:
    """Stand-in of an entry point function, with a representation free of memory addresses."""

    def __init__(self, name):
        self.__name__ = name

    def __repr__(self):
        return f"<function {self.__name__}>"

    def __call__(self, *a, **k):
        return None


eval_func = EntryPoint("eval_func")
learn_func = EntryPoint("learn_func")


def make_output(steps, reps, seed, func=eval_func, extra=None, nan_actions=True):
    rng = np.random.default_rng(seed)
    data = rng.random((steps, reps))
    actions = rng.integers(0, 16, size=(steps, reps)).astype(float)
    if nan_actions and steps > 1:
        actions[-1, 0] = np.nan
    ns = Namespace(func=func, model_dir=Path("some/dir"), seed=seed, number_of_players=4,
                   game_generator="factory", weird=PurePosixPath("x/y"), nothing=None, flag=True,
                   ratio=0.25, **(extra or {}))
    return Output(data, actions, ns)


# ---------------------------------------------------------------------------------------------------------------
# event log of every text/binary file opened through pathlib (Path.open -> io.open), with fault injection
# ---------------------------------------------------------------------------------------------------------------
EVENTS = []
REAL_IO_OPEN = io.open
REAL_REPLACE = os.replace
FAULT = {"write": None, "close": None, "replace": None, "open_w": None, "exc": OSError}
COUNT = {"write": 0, "close": 0, "replace": 0, "open_w": 0}


def _maybe_fail(kind):
    COUNT[kind] += 1
    if FAULT[kind] is not None and COUNT[kind] == FAULT[kind]:
        EVENTS.append(("FAIL", kind, COUNT[kind]))
        raise FAULT["exc"](f"injected {kind} #{COUNT[kind]}")


class Proxy:
    def __init__(self, f, name, mode):
        self._f, self._name, self._mode = f, name, mode

    def write(self, s):
        if "w" in self._mode:
            _maybe_fail("write")
        EVENTS.append(("write", self._name, s))
        return self._f.write(s)

    def read(self, *a):
        r = self._f.read(*a)
        EVENTS.append(("read", self._name, len(r)))
        return r

    def close(self):
        if "w" in self._mode and not self._f.closed:
            try:
                _maybe_fail("close")
            except BaseException:
                self._f.close()  # whatever was buffered goes to the temporary file
                raise
        EVENTS.append(("close", self._name))
        return self._f.close()

    def __enter__(self):
        EVENTS.append(("enter", self._name))
        return self

    def __exit__(self, et, ev, tb):
        EVENTS.append(("exit", self._name, None if et is None else et.__name__))
        self.close()
        return False

    def __getattr__(self, item):
        return getattr(self._f, item)


def logging_open(file, mode="r", *args, **kwargs):
    name = os.fspath(file) if not isinstance(file, int) else file
    if isinstance(name, str) and "data.json" in name:
        if "w" in mode:
            _maybe_fail("open_w")
        EVENTS.append(("open", name, mode, args, sorted(kwargs.items())))
        return Proxy(REAL_IO_OPEN(file, mode, *args, **kwargs), name, mode)
    return REAL_IO_OPEN(file, mode, *args, **kwargs)


def logging_replace(src, dst, *a, **k):
    _maybe_fail("replace")
    EVENTS.append(("replace", os.fspath(src), os.fspath(dst)))
    return REAL_REPLACE(src, dst, *a, **k)


def instrument(on):
    io.open = logging_open if on else REAL_IO_OPEN
    os.replace = logging_replace if on else REAL_REPLACE


def reset_faults(**faults):
    EVENTS.clear()
    for k in COUNT:
        COUNT[k] = 0
    for k in ("write", "close", "replace", "open_w"):
        FAULT[k] = faults.get(k)
    FAULT["exc"] = faults.get("exc", OSError)


SAVED_FIGS = []
REAL_SAVEFIG = plt.savefig


def fake_savefig(fname, *a, **k):
    """Cheap stand-in for most runs: the file name is what the package decides."""
    SAVED_FIGS.append(str(fname))
    Path(fname).write_bytes(b"PNG")


# ---------------------------------------------------------------------------------------------------------------
# A. json_serializer and the dictionary forms of Output
# ---------------------------------------------------------------------------------------------------------------
class SubPath(type(Path())):
    pass


for i, obj in enumerate([Path("a/b"), Path("."), SubPath("q"), PurePosixPath("a/b"), "str", 3, 2.5, None,
                         eval_func, learn_func, np.float64(1.5), np.arange(3), {1, 2}.__class__, b"x"]):
    record(f"A.serializer.{i}", json_serializer, obj)
for seed in range(6):
    for func in (eval_func, learn_func):
        o = make_output(1 + seed % 3, 1 + seed % 2, seed, func, extra={"run_type": "preset"} if seed == 4 else None)
        record(f"A.json.{seed}.{func.__name__}", lambda: o.json)
        record(f"A.dumps.{seed}.{func.__name__}", lambda: json.dumps(o.json, default=json_serializer))
record("A.json.nofunc", lambda: Output(np.zeros((1, 1)), np.zeros((1, 1)), Namespace(a=1)).json)
record("A.savers", lambda: [(k, v.__module__, v.__qualname__) for k, v in SAVERS.items()])

lap("before B")
# ---------------------------------------------------------------------------------------------------------------
# B. readers: Output.from_file / get_outputs_from_file on good and bad files (instrumented opens)
# ---------------------------------------------------------------------------------------------------------------
bdir = Path("B")
bdir.mkdir()
good = {f"run{i}": json.loads(json.dumps(make_output(2 + i, 3, i).json, default=json_serializer)) for i in range(4)}
(bdir / "good.data.json").write_text(json.dumps(good))
(bdir / "empty.data.json").write_text("")
(bdir / "truncated.data.json").write_text(json.dumps(good)[:57])
(bdir / "list.data.json").write_text("[1, 2, 3]")
(bdir / "number.data.json").write_text("17")
(bdir / "nometa.data.json").write_text(json.dumps({"r": {"data": [[1.0]], "actions": [[1.0]]}}))
(bdir / "norun_type.data.json").write_text(json.dumps({"r": {"data": [[1.0]], "actions": [[1.0]], "metadata": {}}}))
(bdir / "extra.data.json").write_text(json.dumps({"r": {"data": [[1.0]], "actions": [[1.0]], "bogus": 1,
                                                          "metadata": {"run_type": "eval"}}}))
(bdir / "badutf.data.json").write_bytes(b'{"a": "\xff\xfe"}')
(bdir / "dir.data.json").mkdir()
(bdir / "nan.data.json").write_text('{"r": {"data": [[NaN, Infinity]], "actions": [[NaN]], "metadata": {"run_type": "learn"}}}')
instrument(True)
for fname in sorted(os.listdir(bdir)) + ["absent.data.json", "no/such/dir/data.json"]:
    for name in ["run0", "run3", "r", "missing", ""]:
        reset_faults()
        record(f"B.from_file.{fname}.{name}", Output.from_file, bdir / fname, name)
        RESULTS.append((f"B.from_file.{fname}.{name}.events", canon(list(EVENTS))))
    reset_faults()
    record(f"B.get_outputs_from_file.{fname}", get_outputs_from_file, bdir / fname)
    RESULTS.append((f"B.get_outputs_from_file.{fname}.events", canon(list(EVENTS))))
instrument(False)
RESULTS.append(("B.tree", tree(bdir)))

lap("before C")
# ---------------------------------------------------------------------------------------------------------------
# C. save(): histories x sizes x names, duplicates, odd results files; fake savefig, file names recorded
# ---------------------------------------------------------------------------------------------------------------
plt.savefig = fake_savefig
NAMES = ["plain", "2024-05-06T07:08:09.123456", "a/b", "a%b", "a\\b", "..", "dots.in.name", " ", "ünï"]
case = 0
for history in (0, 1, 2, 4):
    for steps, reps in [(1, 1), (4, 3)]:
        case += 1
        root = Path(f"C/{case}")
        instrument(True)
        for h in range(history):
            reset_faults()
            if h == 0 and steps == 1:
                record(f"C.{case}.hist{h}", save, root, f"old{h}", make_output(2, 2, 100 + h, learn_func))
            else:
                root.mkdir(parents=True, exist_ok=True)
                record(f"C.{case}.hist{h}", save_json, root / "data.json", f"old{h}",
                       make_output(2, 2, 100 + h, learn_func))
        for j, name in enumerate(NAMES[(case % 3):][: 3 + case % 4]):
            reset_faults()
            SAVED_FIGS.clear()
            record(f"C.{case}.save.{j}", save, root, name, make_output(steps, reps, case * 10 + j))
            RESULTS.append((f"C.{case}.save.{j}.events", canon(list(EVENTS))))
            RESULTS.append((f"C.{case}.save.{j}.figs", canon(list(SAVED_FIGS))))
        # the same names again: nothing may change, nothing may be drawn
        for j, name in enumerate(["old0", NAMES[case % 3], NAMES[2]]):
            reset_faults()
            SAVED_FIGS.clear()
            record(f"C.{case}.again.{j}", save, root, name, make_output(steps + 1, reps, 7))
            RESULTS.append((f"C.{case}.again.{j}.events", canon(list(EVENTS))))
            RESULTS.append((f"C.{case}.again.{j}.figs", canon(list(SAVED_FIGS))))
        instrument(False)
        RESULTS.append((f"C.{case}.tree", tree(root)))
        record(f"C.{case}.reload", get_outputs_from_file, root / "data.json")

# odd pre-existing results files and model paths
odd_contents = {"empty": "", "list": '["plain", 1]', "number": "5", "string": '"plain"', "null": "null",
                "truncated": '{"old": {"data": [[1.0', "dict_other": '{"other": 1}', "has_plain": '{"plain": 1}'}
for key, content in odd_contents.items():
    root = Path(f"C_odd/{key}")
    root.mkdir(parents=True)
    (root / "data.json").write_text(content)
    for name in ["plain", "other", "1"]:
        instrument(True)
        reset_faults()
        SAVED_FIGS.clear()
        record(f"C_odd.{key}.{name}", save, root, name, make_output(2, 2, 1))
        RESULTS.append((f"C_odd.{key}.{name}.events", canon(list(EVENTS))))
        instrument(False)
        RESULTS.append((f"C_odd.{key}.{name}.figs", canon(list(SAVED_FIGS))))
    RESULTS.append((f"C_odd.{key}.tree", tree(root)))
# data.json is a directory; model path is a file; model path nested and absent
root = Path("C_odd/isdir")
(root / "data.json").mkdir(parents=True)
record("C_odd.isdir", save, root, "plain", make_output(2, 2, 1))
RESULTS.append(("C_odd.isdir.tree", tree(root)))
Path("C_odd/afile").write_text("x")
record("C_odd.afile", save, Path("C_odd/afile"), "plain", make_output(2, 2, 1))
record("C_odd.nested", save, Path("C_odd/n/e/s/t"), "plain", make_output(2, 2, 1))
RESULTS.append(("C_odd.tree", tree("C_odd")))

# the savers one by one (save_json directly: no results file, existing, same name; plots into existing dirs)
root = Path("C_direct")
root.mkdir()
for j, name in enumerate(["n1", "n1", "a/b", "n.2"]):
    instrument(True)
    reset_faults()
    record(f"C_direct.save_json.{j}", save_json, root / "data.json", name, make_output(2, 3, j))
    RESULTS.append((f"C_direct.save_json.{j}.events", canon(list(EVENTS))))
    instrument(False)
    record(f"C_direct.save_data_plot.{j}", save_data_plot, root / "plots", name, make_output(2, 3, j))
    record(f"C_direct.save_draw.{j}", save_draw_coalitions, root / "coal", name, make_output(2 + j, 3, j))
record("C_direct.save_json.nofunc", save_json, root / "data.json", "nofunc",
       Output(np.zeros((1, 1)), np.zeros((1, 1)), Namespace(a=1)))
record("C_direct.save_json.nofunc_fresh", save_json, root / "fresh.json", "nofunc",
       Output(np.zeros((1, 1)), np.zeros((1, 1)), Namespace(a=1)))
record("C_direct.save_json.nodir", save_json, root / "no" / "dir" / "data.json", "n", make_output(1, 1, 0))
record("C_direct.save_json.rootpath", save_json, Path("."), "n", make_output(1, 1, 0))
RESULTS.append(("C_direct.tree", tree(root)))
for seed in range(8):
    o = make_output(3 + seed % 3, 4, seed)
    record(f"C_direct.approx.{seed}", approx_game, o.actions)
    noc, nop, mg = approx_game(o.actions)
    for i in range(o.actions.shape[0]):
        record(f"C_direct.dist.{seed}.{i}", get_coalition_distribution, noc, o.actions[i], mg)

lap("before D")
# ---------------------------------------------------------------------------------------------------------------
# D. crash points: n-th write / close / replace / open of the save, OSError and KeyboardInterrupt
# ---------------------------------------------------------------------------------------------------------------
case = 0
for history in range(0, 4):
    for steps, reps in [(1, 1), (2, 3)]:
        # how many writes does an undisturbed save make?
        probe = Path(f"D/probe{history}_{steps}")
        instrument(True)
        probe.mkdir(parents=True)
        for h in range(history):
            reset_faults()
            save_json(probe / "data.json", f"old{h}", make_output(2, 2, 100 + h, learn_func))
        reset_faults()
        save_json(probe / "data.json", "new", make_output(steps, reps, 5))
        n_writes = COUNT["write"]
        instrument(False)
        RESULTS.append((f"D.nwrites.{history}.{steps}", n_writes))
        points = [("open_w", 1), ("close", 1), ("replace", 1)] + [("write", n) for n in range(1, n_writes + 1)]
        for kind, n in points:
            for exc in (OSError, KeyboardInterrupt):
                if kind == "write" and exc is KeyboardInterrupt and n % 3:
                    continue
                case += 1
                root = Path(f"D/{case}")
                instrument(True)
                if history:
                    root.mkdir(parents=True)
                for h in range(history):
                    reset_faults()
                    save_json(root / "data.json", f"old{h}", make_output(2, 2, 100 + h, learn_func))
                before = tree(root / "data.json")
                reset_faults(**{kind: n, "exc": exc})
                SAVED_FIGS.clear()
                record(f"D.{case}.{kind}.{n}.{exc.__name__}", save, root, "new", make_output(steps, reps, 5))
                RESULTS.append((f"D.{case}.events", canon(list(EVENTS))))
                RESULTS.append((f"D.{case}.figs", canon(list(SAVED_FIGS))))
                after = tree(root / "data.json")
                RESULTS.append((f"D.{case}.data_json_unchanged", before == after))
                RESULTS.append((f"D.{case}.tree", tree(root)))
                # and a retry after the crash (the whole save now and then, the results file always)
                reset_faults()
                record(f"D.{case}.retry", save if case % 25 == 0 else save_json,
                       root if case % 25 == 0 else root / "data.json", "new", make_output(steps, reps, 5))
                RESULTS.append((f"D.{case}.retry.events", canon(list(EVENTS))))
                instrument(False)
                RESULTS.append((f"D.{case}.retry.tree", tree(root)))

lap("before E")
# ---------------------------------------------------------------------------------------------------------------
# E. a few saves with the real matplotlib: the files that appear (names; the images are produced by the same
#    matplotlib in both interpreters, their bytes are compared as well)
# ---------------------------------------------------------------------------------------------------------------
plt.savefig = REAL_SAVEFIG
for j, (name, steps) in enumerate([("real", 2), ("re/al.1", 3), ("2024-01-01T00:00:00.5", 1)]):
    record(f"E.{j}", save, Path("E"), name, make_output(steps, 3, j))
RESULTS.append(("E.tree", tree("E")))

with open(out_file, "wb") as f:
    pickle.dump(RESULTS, f, protocol=4)
'''


def sh(*cmd, **kw):
    return subprocess.run(cmd, check=True, **kw)


def export_head(dest: Path) -> None:
    dest.mkdir(parents=True)
    archive = subprocess.Popen(["git", "-C", str(WT), "archive", "HEAD", "incomplete_cooperative"],
                               stdout=subprocess.PIPE)
    sh("tar", "-x", "-C", str(dest), stdin=archive.stdout)
    if archive.wait() != 0:
        raise SystemExit("git archive failed")


def main() -> int:
    with tempfile.TemporaryDirectory(prefix=f"equiv{K}_") as tmp_s:
        tmp = Path(tmp_s)
        orig = tmp / "orig"
        export_head(orig)
        dirty = subprocess.run(["git", "-C", str(WT), "diff", "--quiet", "HEAD", "--", "incomplete_cooperative"]
                               ).returncode != 0
        patch = HERE / f"patch_{K}.diff"
        if dirty:
            new = WT
        elif patch.exists():
            new = tmp / "new"
            export_head(new)
            sh("git", "apply", "--directory", str(new.relative_to(tmp)), str(patch), cwd=tmp)
            print(f"worktree clean: refactored tree built from {patch}")
        else:
            raise SystemExit("worktree has no local change and there is no patch to apply")
        (tmp / f"driver_X10_{K}.py").write_text(DRIVER)
        outs = []
        for label, root in (("orig", orig), ("new", new)):
            work = tmp / f"work_{label}"
            work.mkdir()
            env = dict(os.environ, PYTHONPATH=str(root), PYTHONHASHSEED="0", MPLBACKEND="Agg",
                       OMP_NUM_THREADS="1", PYTHONDONTWRITEBYTECODE="1", SOURCE_DATE_EPOCH="0")
            out = tmp / f"{label}.pkl"
            proc = subprocess.run([PY, str(tmp / f"driver_X10_{K}.py"), str(out), str(work)], env=env, cwd=work,
                                  capture_output=True, text=True)
            sys.stderr.write(proc.stderr[-1500:] if os.environ.get("TWIN_VERBOSE") else "")
            if proc.returncode != 0:
                print(proc.stdout[-3000:], proc.stderr[-6000:])
                print(f"driver failed on the {label} tree")
                return 2
            outs.append(out.read_bytes())
        a, b = (pickle.loads(x) for x in outs)
        bad = 0
        if len(a) != len(b):
            print(f"different number of outcomes: {len(a)} vs {len(b)}")
            bad += 1
        for (la, ra), (lb, rb) in zip(a, b):
            if la != lb or ra != rb:
                bad += 1
                if bad <= 10:
                    print(f"MISMATCH {la} / {lb}:\n   orig: {str(ra)[:600]}\n   new:  {str(rb)[:600]}")
        n_exc = sum(1 for _, r in a if isinstance(r, tuple) and r and r[0] == "exc")
        print(f"{len(a)} outcomes compared ({n_exc} of them exceptions), {bad} mismatches; "
              f"pickles byte-equal: {outs[0] == outs[1]}")
        return 0 if bad == 0 and repr(a) == repr(b) else 1


if __name__ == "__main__":
    sys.exit(main())
