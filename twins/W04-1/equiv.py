"""Differential test for patch_1 (exploitability.py: MaxGainGame.get_values split, starmap spelling of compute_exploitability).

Run with cwd=/tmp/wt12/W04.  Loads the ORIGINAL package from `git show HEAD:<path>` into a temporary directory and the
refactored package from the worktree, runs both on many inputs and compares results exactly.
"""
import importlib
import os
import subprocess
import sys
import tempfile
import warnings

import numpy as np

WT = os.getcwd()
MODULES = ["coalitions", "protocols", "game", "graph_game", "shapley", "exploitability", "bounds", "generators"]
warnings.simplefilter("ignore")


def _purge():
    for name in [m for m in sys.modules if m == "incomplete_cooperative" or m.startswith("incomplete_cooperative.")]:
        del sys.modules[name]


def _load(root):
    _purge()
    sys.path.insert(0, root)
    try:
        mods = {n: importlib.import_module("incomplete_cooperative." + n) for n in MODULES}
        assert os.path.realpath(mods["shapley"].__file__).startswith(os.path.realpath(root)), mods["shapley"].__file__
    finally:
        sys.path.remove(root)
        _purge()
    return mods


def _materialise_original(tmp):
    files = subprocess.check_output(["git", "-C", WT, "ls-tree", "-r", "--name-only", "HEAD", "incomplete_cooperative"],
                                    text=True).split()
    for path in files:
        if not path.endswith(".py"):
            continue
        target = os.path.join(tmp, path)
        os.makedirs(os.path.dirname(target), exist_ok=True)
        with open(target, "wb") as handle:
            handle.write(subprocess.check_output(["git", "-C", WT, "show", "HEAD:" + path]))


def same(a, b):
    """Exact comparison (type, dtype, shape, bits)."""
    if isinstance(a, BaseException) or isinstance(b, BaseException):
        return type(a) is type(b) and str(a) == str(b)
    if isinstance(a, tuple) and isinstance(b, tuple) or isinstance(a, list) and isinstance(b, list):
        return len(a) == len(b) and all(same(x, y) for x, y in zip(a, b))
    if type(a) is not type(b):
        return False
    if isinstance(a, np.ndarray):
        return a.dtype == b.dtype and a.shape == b.shape and np.array_equal(a, b, equal_nan=a.dtype.kind in "fc") \
            and a.tobytes() == b.tobytes()
    if isinstance(a, (np.floating, float)):
        return np.array_equal(np.asarray(a), np.asarray(b), equal_nan=True) and \
            np.asarray(a).tobytes() == np.asarray(b).tobytes()
    return a == b


def run(fn):
    try:
        return fn()
    except Exception as exc:  # noqa: BLE001
        return exc


class Recorder:
    """A proxy incomplete game that records every call made on it (to compare call order and arguments)."""

    def __init__(self, inner, log):
        self._inner = inner
        self._log = log

    @property
    def number_of_players(self):
        self._log.append(("number_of_players",))
        return self._inner.number_of_players

    def _ids(self, coalitions):
        return None if coalitions is None else tuple(c.id for c in coalitions)

    def get_values(self, coalitions=None):
        coalitions = None if coalitions is None else list(coalitions)
        self._log.append(("get_values", self._ids(coalitions)))
        return self._inner.get_values(coalitions)

    def get_value(self, coalition):
        self._log.append(("get_value", coalition.id))
        return self._inner.get_value(coalition)

    def get_upper_bounds(self, coalitions=None):
        coalitions = None if coalitions is None else list(coalitions)
        self._log.append(("get_upper_bounds", self._ids(coalitions)))
        return self._inner.get_upper_bounds(coalitions)

    def get_lower_bounds(self, coalitions=None):
        coalitions = None if coalitions is None else list(coalitions)
        self._log.append(("get_lower_bounds", self._ids(coalitions)))
        return self._inner.get_lower_bounds(coalitions)

    def get_upper_bound(self, coalition):
        self._log.append(("get_upper_bound", coalition.id))
        return self._inner.get_upper_bound(coalition)

    def get_lower_bound(self, coalition):
        self._log.append(("get_lower_bound", coalition.id))
        return self._inner.get_lower_bound(coalition)

    def copy(self):  # pragma: no cover
        raise NotImplementedError

    def __add__(self, other):  # pragma: no cover
        raise NotImplementedError


SPECIALS = np.array([0.0, -0.0, 1.0, -1.0, np.inf, -np.inf, np.nan, 1e308, -1e308, 1e-320, 0.1, 1 / 3])


def make_game(mods, n, seed, style):
    """Build an incomplete game for the module set `mods`; all randomness comes from `seed` only."""
    rng = np.random.default_rng(seed)
    Game = mods["game"].IncompleteCooperativeGame
    Coalition = mods["coalitions"].Coalition
    size = 2**n
    if style == "superadditive":
        game = Game(n, mods["bounds"].compute_bounds_superadditive)
        full = mods["generators"].factory_generator(n, generator=rng) if n >= 2 else None
        values = full.get_values() if full is not None else np.arange(size, dtype=float)
        known = rng.random(size) < rng.random()
        known[0] = True
        known[size - 1] = True  # the superadditive bounds need the grand coalition and the singletons
        for i in range(n):
            known[2**i] = True
        ids = np.flatnonzero(known)
        game.set_known_values(values[ids], [Coalition(int(i)) for i in ids])
        game.compute_bounds()
        return game
    game = Game(n)
    known = rng.random(size) < rng.random()
    known[0] = True
    if rng.random() < 0.8:
        known[size - 1] = True
    if style == "random":
        lower = rng.normal(size=size) * 10
        upper = lower + rng.random(size) * 5
    elif style == "crossed":  # lower > upper somewhere, arbitrary floats
        lower = rng.normal(size=size) * 1e3
        upper = rng.normal(size=size) * 1e-3
    elif style == "integers":
        lower = rng.integers(-5, 5, size).astype(float)
        upper = lower + rng.integers(0, 4, size)
    elif style == "specials":
        lower = rng.choice(SPECIALS, size)
        upper = rng.choice(SPECIALS, size)
    else:
        raise AssertionError(style)
    for i in range(size):
        game._values[i, 1] = lower[i]
        game._values[i, 2] = lower[i] if known[i] else upper[i]
        game._values[i, 0] = 1 if known[i] else 0
    return game


def coalition_queries(mods, n, rng):
    Coalition = mods["coalitions"].Coalition
    size = 2**n
    ids = [int(i) for i in rng.integers(0, size, rng.integers(0, 2 * size + 1))]
    yield "none", lambda: None
    yield "empty list", lambda: []
    yield "list", lambda: [Coalition(i) for i in ids]
    yield "generator", lambda: (Coalition(i) for i in ids)
    yield "tuple", lambda: tuple(Coalition(i) for i in ids)
    yield "object array", lambda: np.array([Coalition(i) for i in ids] + [None], dtype=object)[:-1]
    yield "out of range", lambda: [Coalition(size + 3)]
    yield "negative id", lambda: [Coalition(-1), Coalition(0)]
    yield "not coalitions", lambda: [1, 2]
    yield "all", lambda: mods["coalitions"].all_coalitions(n)


def check(label, results):
    orig, new = results
    if not same(orig, new):
        print("DIFFERENT")
        print("case:", label)
        print("original :", repr(orig))
        print("refactored:", repr(new))
        sys.exit(1)


def main():
    with tempfile.TemporaryDirectory() as tmp:
        _materialise_original(tmp)
        versions = [_load(tmp), _load(WT)]
        compare(versions)


def compare(versions):
    assert versions[0]["exploitability"].__file__ != versions[1]["exploitability"].__file__
    assert not hasattr(versions[0]["exploitability"], "_players_with_max_gain_games")
    assert hasattr(versions[1]["exploitability"], "_players_with_max_gain_games")
    cases = 0
    styles = ["superadditive", "random", "crossed", "integers", "specials"]
    for style in styles:
        for n in range(0, 7):
            for seed in range(8 if n < 6 else 3):
                label = f"style={style} n={n} seed={seed}"
                games = [make_game(mods, n, seed, style) for mods in versions]
                check(label + " setup", [g._values.copy() for g in games])
                # exploitability, plain
                check(label + " compute_exploitability",
                      [run(lambda m=m, g=g: m["exploitability"].compute_exploitability(g))
                       for m, g in zip(versions, games)])
                cases += 1
                # exploitability through a recording proxy: same result and same sequence of calls on the game
                logs = [[], []]
                check(label + " compute_exploitability (proxy)",
                      [run(lambda m=m, g=g, log=log: m["exploitability"].compute_exploitability(Recorder(g, log)))
                       for m, g, log in zip(versions, games, logs)])
                check(label + " call log", logs)
                cases += 1
                check(label + " game untouched", [g._values.copy() for g in games])
                # MaxGainGame API
                for player in list(range(n)) + [n, -1]:
                    built = [run(lambda m=m, g=g: m["exploitability"].MaxGainGame(g, player))
                             for m, g in zip(versions, games)]
                    if any(isinstance(b, BaseException) for b in built):
                        check(label + f" MaxGainGame({player}) construction", built)
                        cases += 1
                        continue
                    check(label + f" player_mask p={player}", [b._player_mask for b in built])
                    check(label + f" attrs p={player}", [(b.player, b.number_of_players) for b in built])
                    rngs = [np.random.default_rng(1000 * seed + n) for _ in versions]
                    queries = [list(coalition_queries(m, n, r)) for m, r in zip(versions, rngs)]
                    for (name, q0), (_, q1) in zip(*queries):
                        check(label + f" MaxGainGame({player}).get_values[{name}]",
                              [run(lambda b=b, q=q: b.get_values(q())) for b, q in zip(built, (q0, q1))])
                        cases += 1
                    check(label + f" MaxGainGame({player}).get_values()",
                          [run(lambda b=b: b.get_values()) for b in built])
                    # get_values returns a fresh array that does not alias the game
                    outs = [b.get_values() for b in built]
                    for out in outs:
                        if out.size:
                            out[...] = 12345.0
                    check(label + " aliasing", [g._values.copy() for g in games])
                    for cid in range(2**n):
                        check(label + f" MaxGainGame({player}).get_value({cid})",
                              [run(lambda b=b, m=m: b.get_value(m["coalitions"].Coalition(cid)))
                               for b, m in zip(built, versions)])
                    check(label + f" shapley of max gain game p={player}",
                          [run(lambda b=b, m=m: m["shapley"].compute_shapley_value_for_player(player, b))
                           for b, m in zip(built, versions)])
                    check(label + f" all shapley of max gain game p={player}",
                          [run(lambda b=b, m=m: list(m["shapley"].compute_shapley_value(b)))
                           for b, m in zip(built, versions)])
                    cases += 3
    # laziness / ordering of the generator of max gain games: mutation of the game between players must be seen alike
    for seed in range(20):
        outs = []
        for mods in versions:
            game = make_game(mods, 4, seed, "random")
            game._values[-1, 0] = 1
            game._values[-1, 2] = game._values[-1, 1]
            original_init = mods["exploitability"].MaxGainGame.__init__
            order = []

            def spying_init(self, g, player, original_init=original_init, order=order):
                order.append(("init", player))
                g._values[1 + player, 2] += 1.0  # visible to later players only if construction is lazy
                original_init(self, g, player)
            mods["exploitability"].MaxGainGame.__init__ = spying_init
            try:
                outs.append((run(lambda: mods["exploitability"].compute_exploitability(game)), order, game._values.copy()))
            finally:
                mods["exploitability"].MaxGainGame.__init__ = original_init
        check(f"lazy construction seed={seed}", outs)
        cases += 1
    # errors: objects that are not games
    for bad in (None, 3, "game", object()):
        check(f"bad game {bad!r}", [run(lambda m=m: m["exploitability"].compute_exploitability(bad)) for m in versions])
        cases += 1
    print(f"EQUIVALENT ({cases} cases)")


if __name__ == "__main__":
    main()
