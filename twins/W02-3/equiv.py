"""Differential test for refactoring 3 (coalition_ids.py: a[np.nonzero(mask)] and named intermediates; game_properties.py: named value, hints).

Run with cwd=/tmp/wt12/W02.  The ORIGINAL package is materialised from `git show HEAD:<path>` into a temporary
directory; the refactored one is the worktree.  Both are run in separate interpreter processes on the same pickled
inputs and the pickled outputs are compared exactly.
"""
import os
import pickle
import subprocess
import sys
import tempfile
from pathlib import Path

import numpy as np

WORKTREE = Path.cwd()
# the refactored tree; the override exists only for negative controls of this script itself
NEW_ROOT = Path(os.environ.get("EQUIV_NEW_ROOT", WORKTREE))
PKG = "incomplete_cooperative"


# --------------------------------------------------------------------------- helpers shared by parent and worker
def materialise_original(target: Path) -> None:
    """Write every file of HEAD:incomplete_cooperative (except tests) below `target`."""
    names = subprocess.run(["git", "-C", str(WORKTREE), "ls-tree", "-r", "--name-only", "HEAD", PKG],
                           check=True, capture_output=True, text=True).stdout.split("\n")
    for name in filter(None, names):
        if not name.endswith(".py") or "/tests/" in name:
            continue
        content = subprocess.run(["git", "-C", str(WORKTREE), "show", f"HEAD:{name}"],
                                 check=True, capture_output=True).stdout
        path = target / name
        path.parent.mkdir(parents=True, exist_ok=True)
        path.write_bytes(content)


def same(a, b) -> bool:
    """Exact structural comparison."""
    if type(a) is not type(b):
        return False
    if isinstance(a, np.ndarray):
        if a.dtype != b.dtype or a.shape != b.shape:
            return False
        if a.dtype.kind == "f":
            return bool(np.array_equal(a, b, equal_nan=True) and np.array_equal(np.signbit(a), np.signbit(b)))
        return bool(np.array_equal(a, b))
    if isinstance(a, (list, tuple)):
        return len(a) == len(b) and all(same(x, y) for x, y in zip(a, b))
    if isinstance(a, dict):
        return list(a.keys()) == list(b.keys()) and all(same(a[k], b[k]) for k in a)
    if isinstance(a, float):
        return (a == b and np.signbit(a) == np.signbit(b)) or (a != a and b != b)
    if isinstance(a, np.generic):
        return a.dtype == b.dtype and same(np.asarray(a), np.asarray(b))
    return a == b


# --------------------------------------------------------------------------- inputs (made by the parent only)
def make_inputs():
    """Value vectors for the property checks, with knowledge masks for the bounds."""
    cases = []
    for n in range(1, 7):
        size = 2**n
        sizes = np.array([bin(c).count("1") for c in range(size)])
        minimal = (sizes <= 1) | (sizes == n)
        for seed in range({1: 3, 2: 8, 3: 16, 4: 16, 5: 10, 6: 6}[n]):
            rng = np.random.default_rng(31000 * n + seed)
            weights = rng.uniform(0.1, 5, n)
            int_weights = rng.integers(1, 5, n)
            tenths = rng.integers(1, 9, n) / 10  # sums such as 0.1 + 0.2 != 0.3: the isclose branch decides
            member = (np.arange(size)[:, None] >> np.arange(n)) & 1
            additive_tenths = np.array([sum(t for t, m in zip(tenths, row) if m) for row in member])
            families = {
                "arbitrary": np.concatenate([[0.], rng.normal(0, 3, size - 1)]),
                "convex": (member @ weights) ** 2,
                "int_convex": ((member @ int_weights) ** 2).astype(float),
                "additive_tenths": additive_tenths,
                "additive_tenths_matmul": member @ tenths,
                "neg_additive_tenths": -additive_tenths,
                "sam_sqrt": -np.sqrt(member @ weights),
                "sam_max": -np.max(member * weights, axis=1),
                "sam_int": -np.max(member * int_weights, axis=1).astype(float),
                "zeros": np.zeros(size),
            }
            noisy = families["additive_tenths"] + rng.choice([0, 1e-12, -1e-12, 1e-7, -1e-7], size)
            noisy[0] = 0
            families["additive_noisy"] = noisy
            with_nan = families["convex"].copy()
            with_nan[int(rng.integers(1, size))] = np.nan
            families["with_nan"] = with_nan
            with_inf = families["sam_sqrt"].copy()
            with_inf[int(rng.integers(1, size))] = rng.choice([np.inf, -np.inf])
            families["with_inf"] = with_inf
            for family, values in families.items():
                known = minimal | (rng.random(size) < rng.choice([0.0, 0.3, 0.7]))
                cases.append((f"n={n} seed={seed} {family}", n, np.asarray(values, dtype=float), known))
    return cases


# --------------------------------------------------------------------------- worker
def worker(root: str, infile: str, outfile: str) -> None:
    sys.path.insert(0, root)
    from functools import partial

    import incomplete_cooperative
    assert Path(incomplete_cooperative.__file__).resolve().is_relative_to(Path(root).resolve()), incomplete_cooperative.__file__
    from incomplete_cooperative import bounds, coalition_ids, game_properties
    from incomplete_cooperative.coalitions import Coalition
    from incomplete_cooperative.game import IncompleteCooperativeGame
    from incomplete_cooperative.generators import GENERATORS
    from incomplete_cooperative.graph_game import GraphCooperativeGame

    with open(infile, "rb") as f:
        cases = pickle.load(f)
    out = []

    def attempt(label, fn):
        try:
            result = fn()
            if isinstance(result, np.ndarray):
                flags = result.flags
                outcome = ("ok", result.copy(), result.base is None, flags.owndata, flags.writeable, flags.c_contiguous,
                           flags.f_contiguous, result.strides)
            else:
                outcome = ("ok", result)
        except BaseException as e:  # noqa
            outcome = ("exc", type(e).__name__, str(e))
        out.append((label, outcome))

    # ---- coalition_ids: every coalition of every small game, in the integer types the package passes around
    id_functions = ["players", "get_size", "sub_coalitions", "super_coalitions"]
    for n in range(0, 10):
        attempt(f"get_all_coalitions({n})", lambda: coalition_ids.get_all_coalitions(n))
        attempt(f"get_all_coalitions(np.int64({n}))", lambda: coalition_ids.get_all_coalitions(np.int64(n)))
        for c in range(2**n):
            conversions = [int, np.int32, np.int64] if (n <= 6 or c % 7 == 0) else [np.int32]
            for convert in conversions:
                for name in id_functions:
                    attempt(f"{name}({convert.__name__}({c}), {n})", lambda: getattr(coalition_ids, name)(convert(c), n))
        # arguments off the contract
        for bad in (2**n, 2**n + 5, np.int32(2**n), -1, -3, 0.0, 1.5, None, "1", np.array([1]), np.array([0, 1]),
                    np.array(1), True, np.uint8(1), np.array([[1]]), np.array([[[3]]]), np.array([[1], [0]]),
                    np.array([1], dtype=object), np.ma.masked_array([1]), np.float64(2.0), np.int64(2**40)):
            for name in id_functions:
                attempt(f"{name}({bad!r} [{type(bad).__name__}], {n})", lambda: getattr(coalition_ids, name)(bad, n))
        for name in id_functions:
            attempt(f"{name}(1, np.int64({n}))", lambda: getattr(coalition_ids, name)(1, np.int64(n)))
            attempt(f"{name}(0, float({n}))", lambda: getattr(coalition_ids, name)(0, float(n)))
    for n in (12, 16, 20):
        for c in (0, 1, 5, 2**(n - 1), 2**n - 1, 2**n - 2, 0b1010101):
            for name in ("players", "get_size") + (("sub_coalitions", "super_coalitions") if n <= 16 else ()):
                attempt(f"{name}({c}, {n})", lambda: getattr(coalition_ids, name)(np.int32(c), n))
    # the results are fresh arrays: writing into one must not disturb the next call
    first = coalition_ids.sub_coalitions(np.int32(11), 4)
    first[:] = -7
    attempt("sub_coalitions after overwrite", lambda: coalition_ids.sub_coalitions(np.int32(11), 4))
    first = coalition_ids.players(np.int32(11), 4)
    first[:] = -7
    attempt("players after overwrite", lambda: coalition_ids.players(np.int32(11), 4))

    # ---- the cached structure of bounds.py is built out of them
    for n in range(1, 8):
        bounds._get_sub_super_coalition_structure.cache_clear()
        attempt(f"structure n={n}", lambda: [np.asarray(x) for x in bounds._get_sub_super_coalition_structure(n)])

    # ---- game_properties on explicit value vectors, then the bounds of the same games
    tolerances = [{}, {"rtol": 0}, {"rtol": 0, "atol": 1e-9}, {"rtol": 1e-3}, {"atol": 1e-6}, {"rtol": 1e-13, "atol": 0.0}]
    for label, n, values, known in cases:
        game = IncompleteCooperativeGame(n)
        game.set_values(values)
        for kwargs in tolerances:
            attempt(f"{label} is_superadditive({kwargs})", lambda: game_properties.is_superadditive(game, **kwargs))
        attempt(f"{label} is_superadditive positional", lambda: game_properties.is_superadditive(game, 1e-6, 1e-8))
        attempt(f"{label} is_monotone_decreasing", lambda: game_properties.is_monotone_decreasing(game))
        attempt(f"{label} is_sam", lambda: game_properties.is_sam(game))
        attempt(f"{label} negated is_superadditive", lambda: game_properties.is_superadditive(-game))
        attempt(f"{label} negated is_monotone_decreasing", lambda: game_properties.is_monotone_decreasing(-game))
        attempt(f"{label} untouched", lambda: game._values.copy())
        known_ids = [int(i) for i in np.flatnonzero(known)]
        for key, computer in bounds.BOUNDS.items():
            if key in ("sam_apx_100", "sam_apx_1000") and (n >= 5 or "seed=0 " not in label):
                continue
            if key == "superadditive" and n == 6 and "seed=0 " not in label:
                continue
            incomplete = IncompleteCooperativeGame(n, computer)
            incomplete.set_known_values(values[known], [Coalition(i) for i in known_ids])
            attempt(f"{label} {key} compute_bounds", incomplete.compute_bounds)
            attempt(f"{label} {key} table", lambda: incomplete._values.copy())
            if key == "superadditive_cached":
                # the properties of an incomplete game: get_values raises
                attempt(f"{label} incomplete is_superadditive", lambda: game_properties.is_superadditive(incomplete))
                attempt(f"{label} incomplete is_sam", lambda: game_properties.is_sam(incomplete))

    # ---- the generators that validate their result with these properties (only those seeded through `generator`)
    seeded = [key for key, fn in GENERATORS.items()
              if not (key == "graph" or key.startswith(("graph_beta", "graph_poiss", "graph_03", "graph_tir",
                                                        "graph_incr", "graph_decr")))]
    for key in seeded:
        for n in (3, 4, 5):
            for seed in range(3):
                def generate():
                    generated = GENERATORS[key](n, np.random.default_rng(seed))
                    generated_values = generated.get_values()
                    kind = type(generated).__name__
                    return [kind, np.asarray(generated_values).copy(),
                            game_properties.is_superadditive(generated),
                            game_properties.is_monotone_decreasing(generated),
                            game_properties.is_sam(generated)]
                attempt(f"generator {key} n={n} seed={seed}", generate)
    for n in (2, 3, 4, 5):
        for seed in range(6):
            matrix = np.random.default_rng(seed).normal(0, 1, (n, n))
            graph_game = GraphCooperativeGame(matrix)
            attempt(f"graph game n={n} seed={seed}",
                    lambda: [game_properties.is_superadditive(graph_game), game_properties.is_monotone_decreasing(graph_game),
                             game_properties.is_sam(graph_game)])
    with open(outfile, "wb") as f:
        pickle.dump(out, f)


# --------------------------------------------------------------------------- parent
def main() -> int:
    with tempfile.TemporaryDirectory() as tmp:
        tmp_path = Path(tmp)
        orig_root = tmp_path / "orig"
        materialise_original(orig_root)
        infile = tmp_path / "inputs.pkl"
        cases = make_inputs()
        with infile.open("wb") as f:
            pickle.dump(cases, f)
        results = {}
        env = dict(os.environ, OMP_NUM_THREADS="1", MKL_NUM_THREADS="1", PYTHONDONTWRITEBYTECODE="1")
        for name, root in (("orig", orig_root), ("new", NEW_ROOT)):
            outfile = tmp_path / f"{name}.pkl"
            subprocess.run([sys.executable, __file__, "--worker", str(root), str(infile), str(outfile)],
                           check=True, env=env, cwd=str(tmp_path))
            with outfile.open("rb") as f:
                results[name] = pickle.load(f)
    orig, new = results["orig"], results["new"]
    if len(orig) != len(new):
        print("DIFFERENT: number of records", len(orig), len(new))
        return 1
    for a, b in zip(orig, new):
        if not same(a, b):
            print("DIFFERENT")
            print("original:  ", a)
            print("refactored:", b)
            return 1
    exceptions: dict = {}
    for record in orig:
        if len(record) > 1 and isinstance(record[1], tuple) and record[1] and record[1][0] == "exc":
            exceptions[record[1][1]] = exceptions.get(record[1][1], 0) + 1
    print(f"compared {len(orig)} records from {len(cases)} input cases; identical exceptions among them: {exceptions}")
    print("EQUIVALENT")
    return 0


if __name__ == "__main__":
    if len(sys.argv) > 1 and sys.argv[1] == "--worker":
        worker(*sys.argv[2:5])
    else:
        sys.exit(main())
