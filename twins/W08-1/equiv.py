"""Differential test for refactoring 1 (icg_gym_linear.py: split `step`, unpack the step tuple, aggregate in a function).

Run with cwd=/tmp/wt12/W08.  The ORIGINAL package is exported from git HEAD into a temporary directory; the same
scenario script (this file, `worker` mode) is executed once against the original and once against the working tree,
each in its own interpreter, and the pickled traces are compared exactly.
"""
import os
import pickle
import subprocess
import sys
import tempfile
from pathlib import Path

import numpy as np

WORKTREE = Path.cwd()
PYTHON = sys.executable


# --------------------------------------------------------------------------------------------------------------------
# worker: produce a trace
# --------------------------------------------------------------------------------------------------------------------
def _exc(e: BaseException):
    return ("EXC", type(e).__name__, str(e))


def _call(fn, *args, **kwargs):
    try:
        return fn(*args, **kwargs)
    except Exception as e:  # noqa
        return _exc(e)


def _norm(x):
    """Turn a result into something picklable and comparable without the package classes."""
    if isinstance(x, dict):
        return {"__dict__": [(k, _norm(v)) for k, v in x.items()]}
    if isinstance(x, tuple):
        return ("__tuple__", type(x).__name__, [_norm(v) for v in x])
    if isinstance(x, list):
        return [_norm(v) for v in x]
    if isinstance(x, np.ndarray):
        return ("__nd__", str(x.dtype), x.shape, x.copy())
    if isinstance(x, (np.generic,)):
        return ("__np__", type(x).__name__, x.item() if not np.isnan(x) else "nan")
    if isinstance(x, (bool, int, float, str, type(None))):
        return (type(x).__name__, x if not (isinstance(x, float) and x != x) else "nan")
    if hasattr(x, "get_values"):  # a game
        return ("__game__", type(x).__name__, _norm(np.asarray(x.get_values())))
    return ("__obj__", type(x).__name__, repr(x))


def _env_fingerprint(lin):
    """Everything observable about the wrapper and the wrapped environment."""
    under = lin.icg_gym
    ig = under.incomplete_game
    return _norm([
        lin.rng.bit_generator.state["state"]["state"], lin.rng.bit_generator.state["state"]["inc"],
        under.steps_taken,
        np.asarray(ig.are_values_known()),
        np.asarray(ig.get_upper_bounds()), np.asarray(ig.get_lower_bounds()),
        np.asarray(under.full_game.get_values()),
        _call(lambda: under.state), _call(lambda: under.reward), _call(lambda: under.done),
        _call(under.action_masks),
        _call(lambda: lin.state), _call(lambda: lin.reward), _call(lambda: lin.done), _call(lin.action_masks),
    ])


def worker(out_path: str, expected_root: str) -> None:
    import incomplete_cooperative
    assert Path(incomplete_cooperative.__file__).resolve().is_relative_to(Path(expected_root).resolve()), \
        (incomplete_cooperative.__file__, expected_root)
    from incomplete_cooperative.bounds import compute_bounds_superadditive
    from incomplete_cooperative.coalitions import Coalition, all_coalitions
    from incomplete_cooperative.exploitability import compute_exploitability
    from incomplete_cooperative.game import IncompleteCooperativeGame
    from incomplete_cooperative.generators import GENERATORS
    from incomplete_cooperative.icg_gym import ICG_Gym
    from incomplete_cooperative.icg_gym_linear import ICG_Gym_Linear
    from incomplete_cooperative.norms import l1_norm
    from incomplete_cooperative.run.model import ModelInstance

    # the graph generators draw from an unseeded module-level generator: pin its state so both runs see the same games
    import incomplete_cooperative.generators as generators_module
    generators_module._gen.bit_generator.state = np.random.default_rng(20240917).bit_generator.state

    trace = []
    cases = 0

    def episode(lin, driver: np.random.Generator, tag, resets=2, bad_prob=0.15):
        nonlocal cases
        n = lin.number_of_players
        trace.append((tag, "init", _env_fingerprint(lin),
                      _norm(lin.subset_sizes), repr(lin.observation_space), repr(lin.action_space)))
        for r in range(resets):
            trace.append((tag, "reset", r, _norm(_call(lin.reset)), _env_fingerprint(lin)))
            for t in range(2 ** n):
                mask = lin.action_masks()
                u = driver.random()
                if u < bad_prob / 3:
                    action = int(driver.choice([-1, n, n + 3]))  # out of range: assertion
                elif u < bad_prob or not mask.any():
                    action = int(driver.integers(n))  # any size, possibly exhausted: rng.choice on nothing
                else:
                    action = int(driver.choice(np.flatnonzero(mask)))
                if driver.random() < 0.3:
                    action = np.int64(action)
                res = _call(lin.step, action) if driver.random() < 0.5 else _call(lambda: lin.step(coalition_size=action))
                trace.append((tag, "step", r, t, _norm(action), _norm(res), _env_fingerprint(lin)))
                cases += 1
                if lin.icg_gym.done and driver.random() < 0.5:
                    break
        # the aggregation on its own: right and wrong shapes, several dtypes
        m = len(lin.icg_gym.explorable_coalitions)
        for x in (driver.random(m), driver.integers(0, 5, m), driver.random(m) < 0.5, np.full(m, np.nan),
                  driver.random(m + 1), driver.random((m, 1)), np.zeros(0), driver.random(max(m - 1, 0))):
            trace.append((tag, "sum", _norm(x), _norm(_call(lin._sum_values_of_the_same_size, x))))
            cases += 1

    # (A) the environments the package itself builds, over generators / seeds / sizes / gap functions
    generators = ["factory", "factory_fixed", "noisy_factory", "factory_cheerleader", "graph", "graph_beta_2_3",
                  "predictible_factory", "noisy_factory_exp"]
    for gi, gen in enumerate(generators):
        for n in (3, 4, 5):
            for seed in (1, 7, 12345):
                for limit in (None, 3):
                    inst = ModelInstance(number_of_players=n, game_generator=gen, seed=seed, linear=True,
                                         run_steps_limit=limit,
                                         gap_function="exploitability" if (seed + n) % 2 else "l1_norm")
                    lin = inst.get_env()
                    assert isinstance(lin, ICG_Gym_Linear)
                    episode(lin, np.random.default_rng([gi, n, seed, 0 if limit is None else limit]),
                            ("A", gen, n, seed, limit), resets=2)

    # (B) hand-built environments with odd sets of initially known coalitions (including everything known)
    def build(n, known_ids, seed, gap):
        incomplete = IncompleteCooperativeGame(n, compute_bounds_superadditive)
        rng = np.random.default_rng(seed)
        gen = lambda: GENERATORS["noisy_factory"](n, rng)  # noqa
        return ICG_Gym(incomplete, gen, [Coalition(i) for i in known_ids], gap)

    for n in (2, 3, 4, 5, 6):
        ids = list(range(2 ** n))
        for seed in range(6):
            drv = np.random.default_rng([99, n, seed])
            if seed == 0:
                known = ids  # nothing to explore
            elif seed == 1:
                known = []  # everything but the empty and grand coalition to explore, singletons included
            else:
                known = [i for i in ids if drv.random() < 0.4 or bin(i).count("1") == 1]
            under = _call(build, n, known, seed, compute_exploitability if seed % 2 else l1_norm)
            if isinstance(under, tuple):
                trace.append((("B", n, seed), "build", under))
                continue
            lin = _call(ICG_Gym_Linear, under, np.random.default_rng(seed + 1000))
            if isinstance(lin, tuple):
                trace.append((("B", n, seed), "wrap", lin))
                continue
            _call(episode, lin, drv, ("B", n, seed), 2, 0.25)

    # (C) unseeded wrapper: only check that it constructs and exposes the same deterministic parts
    under = build(4, [0, 1, 2, 4, 8, 15], 5, compute_exploitability)
    lin = ICG_Gym_Linear(under)
    trace.append(("C", _norm(lin.action_masks()), _norm(lin.state), _norm(lin.reset()), type(lin.rng).__name__))

    # (D) API surface of the class / module that other code may rely on
    import incomplete_cooperative.icg_gym_linear as mod
    trace.append(("D", sorted(k for k in vars(ICG_Gym_Linear) if not k.startswith("_abc") and k in (
        "action_masks", "reset", "state", "step", "done", "reward", "_sum_values_of_the_same_size", "__init__")),
        [type(vars(ICG_Gym_Linear)[k]).__name__ for k in ("state", "done", "reward", "step")],
        mod.ICG_Gym_Linear.__mro__[1].__name__))

    with open(out_path, "wb") as f:
        pickle.dump({"trace": trace, "cases": cases}, f)


# --------------------------------------------------------------------------------------------------------------------
# driver: compare the traces
# --------------------------------------------------------------------------------------------------------------------
def same(a, b, path=()):
    """Return None if identical, else the path of the first difference."""
    if type(a) is not type(b):
        return path, a, b
    if isinstance(a, np.ndarray):
        if a.dtype != b.dtype or a.shape != b.shape:
            return path, a, b
        ok = np.array_equal(a, b, equal_nan=True) if a.dtype.kind in "fc" else np.array_equal(a, b)
        return None if ok else (path, a, b)
    if isinstance(a, (list, tuple)):
        for i, (x, y) in enumerate(zip(a, b)):
            d = same(x, y, path + (i,))
            if d is not None:
                return d
        if len(a) != len(b):
            return path + ("len",), len(a), len(b)
        return None
    if isinstance(a, dict):
        if list(a.keys()) != list(b.keys()):
            return path + ("keys",), list(a), list(b)
        for k in a:
            d = same(a[k], b[k], path + (k,))
            if d is not None:
                return d
        return None
    return None if a == b else (path, a, b)


def run_worker(root: Path, out: Path) -> None:
    env = dict(os.environ, PYTHONPATH=str(root), OMP_NUM_THREADS="1", MKL_NUM_THREADS="1", PYTHONHASHSEED="0", PYTHONDONTWRITEBYTECODE="1")
    subprocess.run([PYTHON, str(Path(__file__).resolve()), "worker", str(out), str(root)],
                   cwd=str(root), env=env, check=True)


def main() -> int:
    with tempfile.TemporaryDirectory(prefix="equiv_orig_") as tmp:
        tmp_path = Path(tmp)
        orig_root = tmp_path / "orig"
        orig_root.mkdir()
        archive = subprocess.run(["git", "-C", str(WORKTREE), "archive", "HEAD", "incomplete_cooperative"],
                                 check=True, capture_output=True).stdout
        subprocess.run(["tar", "-x", "-C", str(orig_root)], input=archive, check=True)
        changed = subprocess.run(["git", "-C", str(WORKTREE), "diff", "--stat", "HEAD"], check=True,
                                 capture_output=True, text=True).stdout
        print("working tree differs from HEAD in:\n" + (changed or "  (nothing!)\n"), end="")
        run_worker(orig_root, tmp_path / "orig.pkl")
        run_worker(WORKTREE, tmp_path / "new.pkl")
        with open(tmp_path / "orig.pkl", "rb") as f:
            orig = pickle.load(f)
        with open(tmp_path / "new.pkl", "rb") as f:
            new = pickle.load(f)
    print(f"cases: {orig['cases']} (orig) / {new['cases']} (refactored); trace entries: {len(orig['trace'])}")
    diff = same(orig, new)
    if diff is None and orig["cases"] >= 300:
        print("EQUIVALENT")
        return 0
    print("DIFFERENT")
    if diff is not None:
        path, a, b = diff
        print("first difference at", path)
        if len(path) >= 2 and path[0] == "trace" and isinstance(path[1], int):
            print("entry (orig):", orig["trace"][path[1]][:5])
        print("orig:", a)
        print("new :", b)
    return 1


if __name__ == "__main__":
    if len(sys.argv) > 1 and sys.argv[1] == "worker":
        worker(sys.argv[2], sys.argv[3])
    else:
        sys.exit(main())
