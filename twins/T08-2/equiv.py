"""Differential test for refactoring 2 (incomplete_cooperative/run/save.py: `_write_json_atomically`, `_is_saved`,
module-level constants, rename data -> entries, item assignment instead of `dict.update`).

Run with cwd=/tmp/wt9/T08.  The ORIGINAL package comes from `git archive HEAD incomplete_cooperative` in a temporary
directory; the same worker code runs in two subprocesses (original / refactored) over random sequences of saves and the
pickled observations (outcomes, exceptions, full directory snapshots with file contents, read-back results) are compared.
"""
import hashlib
import io
import os
import pickle
import subprocess
import sys
import tarfile
import tempfile
from pathlib import Path

WORKTREE = Path("/tmp/wt9/T08")


# ------------------------------------------------------------------------------------------------------------ worker
def worker(root: str, out: str, base: str) -> None:
    sys.path.insert(0, root)
    import datetime
    import random as pyrandom
    from argparse import Namespace
    from functools import partial

    import numpy as np

    import incomplete_cooperative
    assert Path(incomplete_cooperative.__file__).resolve().is_relative_to(Path(root).resolve()), incomplete_cooperative.__file__
    from incomplete_cooperative.run import save as save_module
    from incomplete_cooperative.run.save import (SAVERS, Output, get_outputs_from_file, save, save_json)

    base_path = Path(base)

    def outcome(fn):
        try:
            return ("OK", fn())
        except BaseException as e:  # noqa
            return ("EXC", type(e).__name__, str(e).replace(base, "<BASE>"))

    def snapshot(directory: Path):
        snap = {}
        for p in sorted(directory.rglob("*")):
            rel = str(p.relative_to(directory))
            if p.is_dir():
                snap[rel] = "dir"
            elif p.suffix == ".png":
                snap[rel] = ("png", hashlib.sha256(p.read_bytes()).hexdigest())
            else:
                snap[rel] = ("file", p.read_bytes())
        return snap

    def eval_like(*a):
        return None

    def learn_like(*a):
        return None

    def describe(o: Output):
        return (o.data, o.actions, sorted(vars(o.parsed_args).items(), key=lambda kv: kv[0]).__repr__())

    def read_back(path: Path, names):
        res = {}
        res["all"] = outcome(lambda: {k: describe(v) for k, v in get_outputs_from_file(path).items()})
        for name in names:
            res[name] = outcome(lambda: describe(Output.from_file(path, name)))
        return res

    rng = pyrandom.Random(31337)
    nprng = np.random.default_rng(5)

    def random_output():
        steps = rng.randint(0, 4)
        reps = rng.randint(1, 4)
        kind = rng.random()
        data = nprng.random((steps + 1, reps)) * rng.choice([1, 1e-9, 1e12])
        if kind < 0.15:
            data[rng.randrange(steps + 1), rng.randrange(reps)] = rng.choice([np.nan, np.inf, -np.inf, -0.0])
        actions = nprng.integers(0, 31, (steps, reps)).astype(float)
        if steps and rng.random() < 0.4:
            actions[rng.randrange(steps):, rng.randrange(reps)] = np.nan
        if rng.random() < 0.05:
            actions = np.full((steps, reps), np.nan)
        if rng.random() < 0.1:
            actions = nprng.integers(0, 31, (steps, reps))  # integer matrix (greedy search)
        if rng.random() < 0.05:
            actions = np.full((steps + 1, reps, steps), np.nan)  # best-states layout
        func = rng.choice([eval_like, learn_like, partial(eval_like, 1), "solve"])
        extra = rng.choice([{}, {"model_dir": Path("/x/y")}, {"when": datetime.date(2020, 1, 2)}, {"z": complex(1, 2)},
                            {"seed": 12345678901234567890, "gamma": 0.1, "flag": True, "none": None},
                            {"bad": {1, 2}}, {"nested": {"a": [1, Path("p")]}}])
        args = Namespace(func=func, solver=rng.choice(["greedy", "random"]), **extra)
        if rng.random() < 0.03:
            args = Namespace(solver="nofunc")  # metadata raises KeyError
        return Output(data, actions, args)

    names_pool = ["a", "b", "2024-01-01T10:11:12.123456", "x.y", "", "a/b", "ü", "data.json"]
    preexisting = [None] * 12 + [b"{}", b"[]", b'["a"]', b'"abc"', b"5", b"null", b"{not json",
                   b'{"a": {"data": [[1.0]], "actions": [], "metadata": {"run_type": "eval"}}}', b"", "DIR", "STALE_TMP"]

    results = {}
    n_ops = 0
    for case in range(420):
        directory = base_path / f"case{case}"
        use_save = case % 4 == 0       # `save` draws plots: slower, a quarter of the cases
        missing_parent = rng.random() < 0.1
        if not (missing_parent):
            directory.mkdir(parents=True)
        model_dir = directory / "model" if rng.random() < 0.5 else directory
        if not use_save and not missing_parent:
            model_dir.mkdir(parents=True, exist_ok=True)
        data_path = model_dir / "data.json"
        pre = rng.choice(preexisting)
        if pre is not None and not missing_parent:
            model_dir.mkdir(parents=True, exist_ok=True)
            if pre == "DIR":
                data_path.mkdir()
            elif pre == "STALE_TMP":
                (model_dir / "data.json.tmp").write_bytes(b"stale")
            else:
                data_path.write_bytes(pre)
        log = []
        used = []
        for op in range(rng.randint(1, 5)):
            name = rng.choice(names_pool[:4]) if rng.random() < 0.8 else rng.choice(names_pool)
            output = random_output()
            before = (output.data.copy(), output.actions.copy(), repr(sorted(vars(output.parsed_args))))
            if use_save:
                res = outcome(lambda: save(model_dir, name, output))
            else:
                res = outcome(lambda: save_json(data_path, name, output))
            n_ops += 1
            used.append(name)
            after = (output.data, output.actions, repr(sorted(vars(output.parsed_args))))
            log.append((name, res, snapshot(directory) if directory.exists() else None, before, after,
                        read_back(data_path, used)))
        results[("seq", case, use_save)] = log

    # the registry itself and the savers one by one
    results["savers"] = list(SAVERS)
    for i, (saver_name, saver) in enumerate(SAVERS.items()):
        for j in range(4):
            directory = base_path / f"saver{i}_{j}"
            directory.mkdir()
            output = random_output()
            res = [outcome(lambda: saver(directory / saver_name, "n", output)),
                   outcome(lambda: saver(directory / saver_name, "n", output)),
                   outcome(lambda: saver(directory / saver_name, "m", output))]
            results[("saver", saver_name, j)] = (res, snapshot(directory))
    results["public_names"] = sorted(x for x in dir(save_module) if not x.startswith("_")
                                     and x not in ("DATA_FILE_NAME", "TMP_SUFFIX"))
    results["n_ops"] = n_ops

    # the whole entry point: solve / greedy runs through the command functions, saved to disk
    from incomplete_cooperative.run.greedy import greedy_func
    from incomplete_cooperative.run.model import ModelInstance
    from incomplete_cooperative.run.solve import solve_func
    for k, (solver, seed) in enumerate([("greedy", 1), ("random", 2), ("largest", 3), ("greedy_worst", 4)]):
        directory = base_path / f"run{k}"
        for name in ("first", "second", "first"):
            instance = ModelInstance(number_of_players=4, run_steps_limit=3, parallel_environments=1, seed=seed,
                                     model_dir=directory, unique_name=name)
            args = Namespace(func=solve_func, solver=solver, solve_repetitions=3, seed=seed)
            res = outcome(lambda: solve_func(instance, args))
            results[("solve", solver, name, len(results))] = (res, snapshot(directory))
        instance = ModelInstance(number_of_players=3, run_steps_limit=2, parallel_environments=1, seed=seed,
                                 model_dir=directory, unique_name="greedy-search")
        args = Namespace(func=greedy_func, sampling_repetitions=2, seed=seed)
        res = outcome(lambda: greedy_func(instance, args))
        results[("greedy_func", k)] = (res, snapshot(directory), read_back(directory / "data.json", ["greedy-search"]))

    with open(out, "wb") as f:
        pickle.dump(results, f)


# ------------------------------------------------------------------------------------------------------------ driver
def same(a, b) -> bool:
    import numpy as np
    if isinstance(a, np.ndarray) or isinstance(b, np.ndarray):
        return (isinstance(a, np.ndarray) and isinstance(b, np.ndarray) and a.dtype == b.dtype and a.shape == b.shape
                and np.array_equal(a, b, equal_nan=(a.dtype.kind in "fc")) and
                (a.dtype.kind not in "f" or np.array_equal(np.signbit(a), np.signbit(b))))
    if type(a) is not type(b):
        return False
    if isinstance(a, dict):
        return list(a) == list(b) and all(same(a[k], b[k]) for k in a)
    if isinstance(a, (list, tuple)):
        return len(a) == len(b) and all(same(x, y) for x, y in zip(a, b))
    if isinstance(a, float):
        return a == b or (a != a and b != b)
    return a == b


def main() -> int:
    with tempfile.TemporaryDirectory() as tmp:
        orig_root = Path(tmp) / "orig"
        orig_root.mkdir()
        archive = subprocess.run(["git", "-C", str(WORKTREE), "archive", "HEAD", "incomplete_cooperative"],
                                 check=True, capture_output=True).stdout
        tarfile.open(fileobj=io.BytesIO(archive)).extractall(orig_root)
        env = dict(os.environ, OMP_NUM_THREADS="1", MKL_NUM_THREADS="1", PYTHONHASHSEED="0", MPLBACKEND="Agg")
        outs, procs = {}, {}
        for name, root in (("orig", orig_root), ("new", WORKTREE)):
            outs[name] = Path(tmp) / f"{name}.pkl"
            base = Path(tmp) / f"files_{name}"
            base.mkdir()
            procs[name] = subprocess.Popen([sys.executable, __file__, "--worker", str(root), str(outs[name]), str(base)],
                                           cwd=str(root), env=env, stderr=subprocess.DEVNULL)
        for name, proc in procs.items():
            if proc.wait() != 0:
                print("DIFFERENT: worker", name, "failed")
                return 1
        res = {name: pickle.loads(path.read_bytes()) for name, path in outs.items()}
    if list(res["orig"]) != list(res["new"]):
        print("DIFFERENT: case lists differ")
        return 1
    for key in res["orig"]:
        if not same(res["orig"][key], res["new"][key]):
            print("DIFFERENT", key)
            a, b = res["orig"][key], res["new"][key]
            if isinstance(a, list) and isinstance(b, list):
                for i, (x, y) in enumerate(zip(a, b)):
                    if not same(x, y):
                        print(" first differing step:", i)
                        a, b = x, y
                        break
            print(" original  :", a)
            print(" refactored:", b)
            return 1
    seqs = [v for k, v in res["orig"].items() if isinstance(k, tuple) and k[0] == "seq"]
    n_exc = sum(1 for log in seqs for step in log if step[1][0] == "EXC")
    print(f"{len(res['orig'])} result groups, {res['orig']['n_ops']} save operations in {len(seqs)} sequences "
          f"({n_exc} raising, identically), directory contents and read-back compared after each")
    print("EQUIVALENT")
    return 0


if __name__ == "__main__":
    if len(sys.argv) > 1 and sys.argv[1] == "--worker":
        worker(sys.argv[2], sys.argv[3], sys.argv[4])
    else:
        sys.exit(main())
