"""Differential test for refactoring 2 (generators.py: if/else -> single set_value with named value in the factory
family, loop -> set().union(*...) in the coverage generator, loop -> comprehension + set_values in the K-budget
generator, hoisted np.arange in `additive`).

Run with cwd=/tmp/wt9/T06.  The ORIGINAL package is taken from `git show HEAD:<path>` (all tracked files under
incomplete_cooperative/ are written to a temporary directory), the REFACTORED one is the working tree.  Each version is
executed in its own interpreter (`--worker <root> <out>`), with identical inputs, and the pickled outcomes are compared
exactly (bit for bit for arrays, type + message for exceptions).
"""
import os
import pickle
import subprocess
import sys
import tempfile
from pathlib import Path

import numpy as np

WORKTREE = Path("/tmp/wt9/T06")


# --------------------------------------------------------------------------------------------------------------------
# worker: runs the cases against the package found under `root`
# --------------------------------------------------------------------------------------------------------------------
def _outcome(fn):
    try:
        return ("ok", fn())
    except BaseException as e:  # noqa
        return ("exc", type(e).__name__, str(e))


def _table(game):
    """Whole internal state of a game, exactly."""
    if hasattr(game, "_graph_matrix"):
        return ("graph", game.number_of_players, game._graph_matrix.copy(), str(game._graph_matrix.dtype))
    return ("icg", game.number_of_players, game._values.copy(), str(game._values.dtype))


def _rng_state(gen):
    st = gen.bit_generator.state
    return (st["bit_generator"], st["state"]["state"], st["state"]["inc"], st["has_uint32"], st["uinteger"])


def worker(root: str, out: str) -> None:
    sys.path.insert(0, root)
    import incomplete_cooperative
    assert Path(incomplete_cooperative.__file__).resolve().is_relative_to(Path(root).resolve()), incomplete_cooperative.__file__
    from functools import partial
    from math import exp

    from incomplete_cooperative import generators as G

    results = []

    def call(label, fn, n, seed, **kwargs):
        """Call a generator; record the game, its type and the state of both random streams afterwards."""
        G._gen.bit_generator.state = np.random.default_rng(10_000 + 100 * (n if isinstance(n, int) else 0) + seed).bit_generator.state
        rng = np.random.default_rng(seed)

        def run():
            game = fn(n, rng, **kwargs)
            return (type(game).__name__, _table(game), game.get_values().copy())
        res = _outcome(run)
        results.append((label, res, _rng_state(rng), _rng_state(G._gen), G._LAST_OWNER))

    # 1. every registry entry, n = 1..7, six seeds
    for name in sorted(G.GENERATORS):
        for n in (1, 2, 3, 4, 5, 6, 7):
            if name == "oxs" and n > 5:
                continue
            if name.startswith("factory_cheerleader") and n == 1:
                continue  # the cheerleader re-draw loop never terminates with a single player (both versions)
            for seed in range(6):
                if name == "oxs" and n == 5 and seed > 1:
                    continue
                call(f"registry/{name}/{n}/{seed}", G.GENERATORS[name], n, seed)

    # 2. factory family with explicit parameters (valid, out-of-range and negative owners)
    value_fns = {"id": None, "sq": G._fac_sq_fn, "one": G._fac_one_fn, "exp": exp,
                 "neg": (lambda x: -x), "big": (lambda x: exp(200 * x)), "arr": (lambda x: np.float32(x) / 3)}
    for n in (1, 2, 3, 4, 5):
        for owner in (None, 0, 1, n - 1, n, n + 3, -1, -n):
            for vname, vf in value_fns.items():
                for rw in (False, True):
                    kw = {"owner": owner, "random_weights": rw}
                    if vf is not None:
                        kw["value_fn"] = vf
                    call(f"factory/{n}/{owner}/{vname}/{rw}", G.factory_generator, n, 3 + n, **kw)
        for owner in (None, 0, 1, n - 1, n, -1):
            for cheer in (None, 0, 1, n - 1, n, n + 2, -1):
                if n == 1 and (cheer is None or cheer == owner or (owner is None and cheer == 0)):
                    continue  # the re-draw loop cannot terminate with one player (in both versions)
                if cheer is not None and owner is not None and cheer == owner:
                    continue  # would re-draw: fine for n >= 2, covered by cheer=None
                call(f"cheerleader/{n}/{owner}/{cheer}", G.factory_cheerleader_generator, n, 5, owner=owner, cheerleader=cheer)
        for seed in range(4):
            if n > 1:
                call(f"cheerleader_next/{n}/{seed}", G.factory_cheerleader_next_generator, n, seed)
            call(f"predictible/{n}/{seed}", G.predictible_factory_generator, n, seed)

    # 3. additive with several weight distributions; xos / xos_norandom on top of it
    dist_fns = {
        "default": None,
        "normal": np.random.Generator.standard_normal,
        "expo": lambda g: g.exponential(5.0),
        "int": lambda g: int(g.integers(0, 4)),
        "const": lambda g: 0.1,
        "two": lambda g: g.random() + g.random(),
        "vec": lambda g: g.random(3),          # broadcasting error for most n
    }
    for n in (0, 1, 2, 3, 4, 5, 6, 8):
        for dname, df in dist_fns.items():
            for seed in range(3):
                kw = {} if df is None else {"weights_dist_fn": df}
                call(f"additive/{n}/{dname}/{seed}", G.additive, n, seed, **kw)
                if df is not None and n in (3, 4):
                    call(f"xos-additive/{n}/{dname}/{seed}", G.xos, n, seed, additive_gen=partial(G.additive, weights_dist_fn=df),
                         number_of_additive=3, normalize=bool(seed % 2), normalize_additive=bool(seed // 2))
    for bad in (-1, 2.0, "3", None):
        call(f"additive/bad/{bad!r}", G.additive, bad, 0)

    # 4. coverage functions, K-budget
    for n in (1, 2, 3, 4, 5, 6):
        for mult in (0, 1, 2, 3):
            if mult * n > 14:
                continue
            for seed in range(4):
                call(f"covg/{n}/{mult}/{seed}", G.covg_fn_generator, n, seed, universum_mult=mult)
    for n in (0, 1, 2, 3, 4, 5, 6, 7, 8):
        for seed in range(8):
            call(f"k_budget/{n}/{seed}", G.k_budget_generator, n, seed)
    for bad in (-1, 2.0, "3", None):
        call(f"k_budget/bad/{bad!r}", G.k_budget_generator, bad, 0)
        call(f"covg/bad/{bad!r}", G.covg_fn_generator, bad, 0)
        call(f"factory/bad/{bad!r}", G.factory_generator, bad, 0)
        call(f"cheerleader/bad/{bad!r}", G.factory_cheerleader_generator, bad, 0, owner=0, cheerleader=1)

    # 5. a bounds computer given to the factory is stored, not called
    calls = []
    for n in (3, 4):
        G._gen.bit_generator.state = np.random.default_rng(5).bit_generator.state
        g = G.factory_generator(n, np.random.default_rng(1), bounds_computer=lambda game: calls.append(game.number_of_players))
        before = len(calls)
        g.compute_bounds()
        results.append((f"bounds_computer/{n}", ("ok", (before, len(calls), _table(g)))))

    with open(out, "wb") as f:
        pickle.dump(results, f)


# --------------------------------------------------------------------------------------------------------------------
# driver
# --------------------------------------------------------------------------------------------------------------------
def same(a, b) -> bool:
    if type(a) is not type(b):
        return False
    if isinstance(a, np.ndarray):
        if a.dtype != b.dtype or a.shape != b.shape:
            return False
        if a.dtype.kind == "f":
            return bool(np.array_equal(a, b, equal_nan=True)) and bool(np.array_equal(np.signbit(a), np.signbit(b)))
        return bool(np.array_equal(a, b))
    if isinstance(a, (list, tuple)):
        return len(a) == len(b) and all(same(x, y) for x, y in zip(a, b))
    if isinstance(a, dict):
        return a.keys() == b.keys() and all(same(a[k], b[k]) for k in a)
    if isinstance(a, (float, np.floating)):
        return (a == b) or (a != a and b != b)
    return a == b


def extract_original(dest: Path) -> None:
    files = subprocess.run(["git", "-C", str(WORKTREE), "ls-tree", "-r", "--name-only", "HEAD", "incomplete_cooperative"],
                           check=True, capture_output=True, text=True).stdout.split()
    for rel in files:
        blob = subprocess.run(["git", "-C", str(WORKTREE), "show", f"HEAD:{rel}"], check=True, capture_output=True).stdout
        target = dest / rel
        target.parent.mkdir(parents=True, exist_ok=True)
        target.write_bytes(blob)


def main() -> int:
    env = dict(os.environ, OMP_NUM_THREADS="1", MKL_NUM_THREADS="1", PYTHONDONTWRITEBYTECODE="1", PYTHONHASHSEED="0")
    with tempfile.TemporaryDirectory(prefix="T06_equiv2_") as tmp:
        orig_root = Path(tmp) / "orig"
        extract_original(orig_root)
        outs = {}
        for label, root in (("orig", orig_root), ("new", WORKTREE)):
            out = Path(tmp) / f"{label}.pkl"
            subprocess.run([sys.executable, __file__, "--worker", str(root), str(out)], check=True, env=env, cwd=tmp)
            with open(out, "rb") as f:
                outs[label] = pickle.load(f)
    a, b = outs["orig"], outs["new"]
    if len(a) != len(b):
        print("DIFFERENT: number of cases", len(a), len(b))
        return 1
    n_exc = 0
    for ca, cb in zip(a, b):
        (la, ra), (lb, rb) = ca[:2], cb[:2]
        if la != lb or not same(ca, cb):
            print("DIFFERENT at case", la, lb)
            print(" original  :", ca[1:])
            print(" refactored:", cb[1:])
            return 1
        n_exc += ra[0] == "exc"
    print(f"{len(a)} cases compared ({n_exc} of them raise identically)")
    print("EQUIVALENT")
    return 0


if __name__ == "__main__":
    if len(sys.argv) > 1 and sys.argv[1] == "--worker":
        worker(sys.argv[2], sys.argv[3])
    else:
        sys.exit(main())
