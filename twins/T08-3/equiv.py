"""Differential test for refactoring 3 (run/greedy.py NumPy spellings, run/solve.py keyword arguments,
solvers/random.py comprehension -> loop).

Run with cwd=/tmp/wt9/T08.  The ORIGINAL package comes from `git archive HEAD incomplete_cooperative` in a temporary
directory; the same worker code runs in two subprocesses (original / refactored); pickled observations are compared.
"""
import io
import os
import pickle
import subprocess
import sys
import tarfile
import tempfile
from pathlib import Path

WORKTREE = Path("/tmp/wt9/T08")
SOLVER_NAMES = ["greedy", "greedy_worst", "random", "largest"]
GENERATOR_NAMES = ["factory", "predictible_factory", "factory_one", "factory_square", "factory_exp", "factory_fixed",
                   "factory_cheerleader", "factory_cheerleader_next", "noisy_factory", "noisy_factory_square",
                   "noisy_factory_exp", "noisy_factory_fixed", "graph", "graph_tirangular", "graph_beta_2_3",
                   "graph_poiss_1", "graph_random", "graph_cycle", "xos", "xos_one", "xos2", "xos_norm_additive"]


# ------------------------------------------------------------------------------------------------------------ worker
def worker(root: str, out: str, base: str) -> None:
    sys.path.insert(0, root)
    import inspect
    import random as pyrandom
    import warnings
    from argparse import Namespace

    import numpy as np

    import incomplete_cooperative
    assert Path(incomplete_cooperative.__file__).resolve().is_relative_to(Path(root).resolve()), incomplete_cooperative.__file__
    from incomplete_cooperative import evaluation, generators
    from incomplete_cooperative.coalitions import Coalition
    from incomplete_cooperative.run import greedy as greedy_module
    from incomplete_cooperative.run import solve as solve_module
    from incomplete_cooperative.run.greedy import get_greedy_rewards, greedy_func
    from incomplete_cooperative.run.model import GAP_FUNCTIONS, ModelInstance
    from incomplete_cooperative.run.solve import solve_func
    from incomplete_cooperative.solvers import SOLVERS
    from incomplete_cooperative.solvers.random import RandomSolver

    warnings.simplefilter("always")
    base_path = Path(base)
    results = {}

    def outcome(fn):
        with warnings.catch_warnings(record=True) as caught:
            warnings.simplefilter("always")
            try:
                res = ("OK", fn())
            except BaseException as e:  # noqa
                res = ("EXC", type(e).__name__, str(e).replace(base, "<BASE>"))
        return res + (sorted((w.category.__name__, str(w.message)) for w in caught),)

    def pin(seed):
        generators._gen.bit_generator.state = np.random.PCG64(99 + seed).state

    saved = []

    def recording_save(model_dir, unique_name, output):
        saved.append((str(model_dir).replace(base, "<BASE>"), unique_name, output.data, output.actions,
                      sorted((k, repr(v)) for k, v in vars(output.parsed_args).items() if k != "func")))

    real_save_solve, real_save_greedy = solve_module.save, greedy_module.save

    # ---- A: RandomSolver.next_step on scripted gyms: returned action, calls made on the gym, generator state
    class FakeGym:
        def __init__(self, masks):
            self.masks = masks
            self.calls = 0
            self.np_random = np.random.default_rng(len(masks))

        def action_masks(self):
            self.calls += 1
            # a fresh array per call, and (for some) a mask that changes while it is being read
            m = self.masks[min(self.calls - 1, len(self.masks) - 1)]
            return np.array(m, dtype=bool)

        def get_wrapper_attr(self, name):
            return getattr(self, name)

    rng = pyrandom.Random(77)
    for case in range(400):
        size = rng.randint(0, 9)
        density = rng.choice([0, 0.2, 0.5, 0.9, 1])
        n_versions = 1 if case % 3 else rng.randint(1, size + 2)
        masks = [[rng.random() < density for _ in range(size)] for _ in range(n_versions)]
        gym = FakeGym(masks)
        instance = ModelInstance(seed=case) if case % 2 else None
        solver = RandomSolver(instance)
        if case % 2 == 0:
            solver.after_reset(gym)

        def run():
            return [solver.next_step(gym) for _ in range(3)], gym.calls, solver._generator.getstate()
        results[("random-next-step", case)] = outcome(run)

    # ---- B: solve_func: arguments received by evaluate (bound to the real signature), then real runs
    real_evaluate = solve_module.evaluate
    signature = inspect.signature(evaluation.evaluate)
    received = []

    def recording_evaluate(*args, **kwargs):
        bound = signature.bind(*args, **kwargs)
        received.append({k: (v if isinstance(v, (int, str, type(None))) else
                             (type(v).__name__, getattr(v, "__qualname__", getattr(getattr(v, "__func__", None), "__qualname__", None)),
                              type(getattr(v, "__self__", None)).__name__))
                         for k, v in bound.arguments.items()})
        return np.zeros((1, 1)), np.zeros((0, 1))

    solve_module.save = recording_save
    solve_module.evaluate = recording_evaluate
    for solver_name in SOLVER_NAMES:
        for steps in (None, 0, 3):
            for processes in (1, 4):
                instance = ModelInstance(number_of_players=3, run_steps_limit=steps, parallel_environments=processes,
                                         seed=1, model_dir=base_path / "b", unique_name="n")
                args = Namespace(func=solve_func, solver=solver_name, solve_repetitions=7)
                del received[:], saved[:]
                res = outcome(lambda: solve_func(instance, args))
                results[("solve-args", solver_name, steps, processes)] = (res, list(received), list(saved),
                                                                         instance.run_steps_limit)
    for bad_args in (Namespace(func=solve_func, solver="greedy"), Namespace(func=solve_func, solver="nope", solve_repetitions=1),
                     Namespace(func=solve_func, solve_repetitions=1)):
        instance = ModelInstance(number_of_players=3, run_steps_limit=2, seed=1, model_dir=base_path / "b")
        del received[:]
        results[("solve-bad", repr(sorted(vars(bad_args))))] = (outcome(lambda: solve_func(instance, bad_args)), list(received))
    solve_module.evaluate = real_evaluate

    case = 0
    for gi, generator in enumerate(GENERATOR_NAMES):
        for si, solver_name in enumerate(SOLVER_NAMES):
            for seed in (0, 11):
                k = gi + si + seed
                pin(seed)
                instance = ModelInstance(number_of_players=3 + k % 2, game_generator=generator,
                                         gap_function=list(GAP_FUNCTIONS)[k % len(GAP_FUNCTIONS)],
                                         run_steps_limit=1 + k % 4, parallel_environments=1 + (k % 7 == 0),
                                         linear=k % 6 == 0, seed=seed, model_dir=base_path / "c", unique_name=f"u{case}")
                args = Namespace(func=solve_func, solver=solver_name, solve_repetitions=1 + k % 3, seed=seed)
                del saved[:]
                res = outcome(lambda: solve_func(instance, args))
                results[("solve-real", generator, solver_name, seed)] = (
                    res, list(saved), instance.game_generator_rng.bit_generator.state)
                case += 1
    # a few through the real savers: the bytes of data.json
    solve_module.save = real_save_solve
    for k, solver_name in enumerate(SOLVER_NAMES):
        directory = base_path / f"d{k}"
        for name in ("first", "second", "first"):
            instance = ModelInstance(number_of_players=4, run_steps_limit=3, parallel_environments=1 + k % 2, seed=k,
                                     model_dir=directory, unique_name=name)
            args = Namespace(func=solve_func, solver=solver_name, solve_repetitions=3, seed=k)
            res = outcome(lambda: solve_func(instance, args))
            results[("solve-saved", solver_name, name, len(results))] = (res, (directory / "data.json").read_bytes(),
                                                                        sorted(str(p.relative_to(directory)) for p in directory.rglob("*")))

    # ---- C: the greedy search on scripted exploitabilities (ties, near-ties within EPSILON, NaN, infinities)
    class FakeSearchEnv:
        def __init__(self, n_actions, generated):
            self.explorable_coalitions = [Coalition(i) for i in rng.sample(range(3, 40), n_actions)]
            self.incomplete_game = "game"
            self.generated = generated
            self.generator_calls = 0

        def get_wrapper_attr(self, name):
            return getattr(self, name)

        def generator(self):
            self.generator_calls += 1
            return ("full", self.generator_calls)

    real_stacked = greedy_module.get_stacked_exploitabilities_of_action_sequences
    real_single = greedy_module.get_exploitabilities_of_action_sequence
    for case in range(450):
        n_actions = rng.randint(0, 6)
        repetitions = rng.choice([1, 1, 2, 3, 5]) if case % 25 else 0
        max_steps = rng.choice([0, 1, 2, n_actions, n_actions + 2, 7])
        style = rng.choice(["ties", "near", "random", "nan", "inf", "coarse"])
        table_rng = pyrandom.Random(case)
        calls = []

        def value(seq, game_index, style=style, table_rng=table_rng):
            key = (tuple(sorted(c.id for c in seq)), game_index)
            r = pyrandom.Random(hash(key) ^ case)
            if style == "ties":
                return float(r.randint(0, 1))
            if style == "coarse":
                return r.randint(0, 3) / 4
            if style == "near":
                return 1.0 + r.choice([0, 1e-7, 5e-7, 9.99e-7, 1e-6, 1.0000001e-6, 2e-6, -1e-7])
            if style == "nan":
                return r.choice([float("nan"), 0.5, 1.0])
            if style == "inf":
                return r.choice([float("inf"), 0.5, -float("inf"), 2.0])
            return r.random()

        def fake_single(game, full_games, action_sequence, gap_func, processes=1, calls=calls):
            calls.append(("single", [c.id for c in action_sequence], processes))
            return (value(action_sequence, i) for i, _ in enumerate(full_games))

        def fake_stacked(game, full_games, action_sequences, gap_func, processes=1, calls=calls):
            action_sequences = list(action_sequences)
            calls.append(("stacked", [[c.id for c in s] for s in action_sequences], processes))
            for seq in action_sequences:
                yield np.fromiter((value(seq, i) for i, _ in enumerate(full_games)), np.float64, count=len(full_games))

        greedy_module.get_exploitabilities_of_action_sequence = fake_single
        greedy_module.get_stacked_exploitabilities_of_action_sequences = fake_stacked
        env = FakeSearchEnv(n_actions, None)
        tie_rng = pyrandom.Random(case) if case % 2 else None
        res = outcome(lambda: get_greedy_rewards(env, max_steps, repetitions, None, 1 + case % 3, tie_rng))
        results[("greedy-scripted", case, style)] = (res, calls, env.generator_calls,
                                                    tie_rng.getstate() if tie_rng else None)
    greedy_module.get_exploitabilities_of_action_sequence = real_single
    greedy_module.get_stacked_exploitabilities_of_action_sequences = real_stacked

    # ---- D: greedy_func for real (pools of worker processes inside), both tie-breaking modes
    greedy_module.save = recording_save
    for gi, generator in enumerate(GENERATOR_NAMES):
        for randomize in (False, True):
            for seed in (3, 4):
                k = gi + seed + randomize
                pin(seed)
                instance = ModelInstance(number_of_players=3 + (k % 4 == 0), game_generator=generator,
                                         gap_function=list(GAP_FUNCTIONS)[k % len(GAP_FUNCTIONS)],
                                         run_steps_limit=1 + k % 3, parallel_environments=1 + k % 2, seed=seed,
                                         model_dir=base_path / "e", unique_name="g")
                args = Namespace(func="greedy", sampling_repetitions=1 + k % 3, seed=seed)
                del saved[:]
                res = outcome(lambda: greedy_func(instance, args, randomize))
                results[("greedy-real", generator, randomize, seed)] = (
                    res, list(saved), instance.game_generator_rng.bit_generator.state)
    greedy_module.save = real_save_greedy
    for k, randomize in enumerate((False, True)):
        directory = base_path / f"f{k}"
        instance = ModelInstance(number_of_players=3, run_steps_limit=5, parallel_environments=1, seed=9,
                                 model_dir=directory, unique_name="g")
        args = Namespace(func="greedy", sampling_repetitions=2, seed=9)
        res = outcome(lambda: greedy_func(instance, args, randomize))
        results[("greedy-saved", randomize)] = (res, (directory / "data.json").read_bytes())

    with open(out, "wb") as f:
        pickle.dump(results, f)


# ------------------------------------------------------------------------------------------------------------ driver
def same(a, b) -> bool:
    import numpy as np
    if isinstance(a, np.ndarray) or isinstance(b, np.ndarray):
        return (isinstance(a, np.ndarray) and isinstance(b, np.ndarray) and a.dtype == b.dtype and a.shape == b.shape
                and np.array_equal(a, b, equal_nan=(a.dtype.kind in "fc")) and
                (a.dtype.kind not in "f" or np.array_equal(np.signbit(a), np.signbit(b))))
    if type(a) is not type(b):
        return False
    if isinstance(a, dict):
        return list(a) == list(b) and all(same(a[k], b[k]) for k in a)
    if isinstance(a, (list, tuple)):
        return len(a) == len(b) and all(same(x, y) for x, y in zip(a, b))
    if isinstance(a, float):
        return a == b or (a != a and b != b)
    return a == b


def main() -> int:
    with tempfile.TemporaryDirectory() as tmp:
        orig_root = Path(tmp) / "orig"
        orig_root.mkdir()
        archive = subprocess.run(["git", "-C", str(WORKTREE), "archive", "HEAD", "incomplete_cooperative"],
                                 check=True, capture_output=True).stdout
        tarfile.open(fileobj=io.BytesIO(archive)).extractall(orig_root)
        env = dict(os.environ, OMP_NUM_THREADS="1", MKL_NUM_THREADS="1", PYTHONHASHSEED="0", MPLBACKEND="Agg")
        outs, procs = {}, {}
        for name, root in (("orig", orig_root), ("new", WORKTREE)):
            outs[name] = Path(tmp) / f"{name}.pkl"
            base = Path(tmp) / f"files_{name}"
            base.mkdir()
            procs[name] = subprocess.Popen([sys.executable, __file__, "--worker", str(root), str(outs[name]), str(base)],
                                           cwd=str(root), env=env)
        for name, proc in procs.items():
            if proc.wait() != 0:
                print("DIFFERENT: worker", name, "failed")
                return 1
        res = {name: pickle.loads(path.read_bytes()) for name, path in outs.items()}
    if list(res["orig"]) != list(res["new"]):
        print("DIFFERENT: case lists differ")
        return 1
    by_kind: dict = {}
    for key in res["orig"]:
        if not same(res["orig"][key], res["new"][key]):
            print("DIFFERENT", key)
            print(" original  :", res["orig"][key])
            print(" refactored:", res["new"][key])
            return 1
        outcome = res["orig"][key]
        outcome = outcome if isinstance(outcome[0], str) else outcome[0]
        by_kind.setdefault(key[0], [0, 0])[outcome[0] == "EXC"] += 1
    print(f"{len(res['orig'])} cases compared; per kind [ok, raising identically]: {by_kind}")
    print("EQUIVALENT")
    return 0


if __name__ == "__main__":
    if len(sys.argv) > 1 and sys.argv[1] == "--worker":
        worker(sys.argv[2], sys.argv[3], sys.argv[4])
    else:
        sys.exit(main())
