"""Differential equivalence check for patch 3 (run/greedy.py: match statement, walrus, np.full, a[:, None], unpacking).

Usage: /venv/bin/python equiv_3.py            (driver: exits 0 iff original == refactored)
       /venv/bin/python equiv_3.py --worker OUT   (internal)
The refactored tree is the worktree (override with EQUIV_NEW_ROOT for development).

Most calls run with the process pool of `gameplay` replaced (in both trees alike) by an in-process stand-in, so
that many inputs fit in the time limit; a smaller set runs with the real `multiprocessing.Pool`, 1 and 2 processes.
"""
import hashlib
import io
import os
import pickle
import subprocess
import sys
import tarfile
import tempfile

WORKTREE = "/tmp/wt_x4_X03"
PYTHON = "/venv/bin/python"


def arr(a):
    """Exact, NaN-aware, dtype-, shape- and layout-aware description of an array."""
    import numpy as np
    a = np.asarray(a)
    return (str(a.dtype), a.shape, hashlib.sha256(np.ascontiguousarray(a).tobytes()).hexdigest(),
            bool(a.flags.c_contiguous), bool(a.flags.f_contiguous), bool(a.flags.writeable), bool(a.flags.owndata),
            pickle.dumps(a, protocol=4))


class SerialPool:
    """In-process stand-in for multiprocessing.Pool (only what gameplay uses)."""

    def __init__(self, processes=None):
        self.processes = processes

    def __enter__(self):
        return self

    def __exit__(self, *exc):
        return False

    def starmap(self, func, iterable):
        import itertools
        return list(itertools.starmap(func, iterable))


def worker(out_path):
    import warnings
    from argparse import Namespace
    from pathlib import Path
    from random import Random
    import numpy as np
    warnings.simplefilter("ignore")
    import incomplete_cooperative
    from incomplete_cooperative import gameplay
    from incomplete_cooperative.run import greedy as greedy_mod
    from incomplete_cooperative.run.greedy import add_greedy_parser, get_greedy_rewards, greedy_func
    from incomplete_cooperative.run.model import GAP_FUNCTIONS, ModelInstance

    assert os.path.dirname(os.path.dirname(incomplete_cooperative.__file__)) == os.environ["EXPECT_ROOT"], \
        incomplete_cooperative.__file__

    out = []
    real_pool = gameplay.Pool

    def rec(tag, fn):
        try:
            out.append((tag, "ok", fn()))
        except BaseException as e:  # noqa
            out.append((tag, "exc", type(e).__name__, str(e)))

    def env_state(env, instance):
        return (arr(env.incomplete_game._values), env.steps_taken, arr(env.full_game.get_values()),
                repr(env.np_random.bit_generator.state), repr(instance.game_generator_rng.bit_generator.state),
                repr(env.generator.args[1].bit_generator.state),
                [c.id for c in env.explorable_coalitions])

    out.append(("names", sorted(n for n in vars(greedy_mod) if not n.startswith("_"))))
    out.append(("EPSILON", greedy_mod.EPSILON))

    generators = ["factory", "noisy_factory", "noisy_factory_exp", "factory_cheerleader", "predictible_factory",
                  "graph_random", "factory_fixed", "noisy_factory_square"]
    gaps = list(GAP_FUNCTIONS)
    n_calls = 0

    def call_rewards(tag, n, gen, seed, gap, max_steps, repetitions, processes, rnd_seed, game_class="superadditive_cached",
                     linear=False):
        nonlocal n_calls
        n_calls += 1
        inst = ModelInstance(number_of_players=n, game_class=game_class, game_generator=gen, seed=seed,
                             gap_function=gap, unique_name="u", linear=linear)
        env = inst.get_env()
        rnd = Random(rnd_seed) if rnd_seed is not None else None

        def run():
            e, a = get_greedy_rewards(env, max_steps, repetitions, inst.gap_function_callable, processes, rnd)
            return arr(e), a, [type(x).__name__ for x in a], type(a).__name__, type(e).__name__
        rec(tag, run)
        out.append((tag, "after", env_state(env, inst) if not linear else None,
                    rnd.getstate() if rnd is not None else None))

    # ---- serial stand-in pool: the bulk -------------------------------------------------------------------------------
    gameplay.Pool = SerialPool
    k = 0
    for n in (3, 4):
        n_expl = 2**n - 2 - n
        for gen in generators:
            for seed in (0, 1, 2):
                for rnd_seed in (None, 7):
                    gap = gaps[k % len(gaps)]
                    repetitions = (1, 2, 3, 5)[k % 4]
                    if n == 3:
                        max_steps = (0, 1, 2, 3, 4, 100)[k % 6]
                    else:
                        max_steps = (1, 2, 3, 0, 4, 2)[k % 6]
                    k += 1
                    call_rewards(("serial", n, gen, seed, rnd_seed, gap, max_steps, repetitions), n, gen, seed, gap,
                                 max_steps, repetitions, 1 + k % 2, rnd_seed)
    # all gap functions, both randomisations, every step limit for n = 3 on tie-rich games
    for gap in gaps:
        for max_steps in range(0, 5):
            for rnd_seed in (None, 0, 1, 2):
                for gen in ("factory_fixed", "factory"):
                    call_rewards(("serial-ties", gap, max_steps, rnd_seed, gen), 3, gen, 5, gap, max_steps, 2, 1,
                                 rnd_seed)
    # complete runs for n = 4 and a short one for n = 5, reference bound computer as well
    for rnd_seed in (None, 3):
        call_rewards(("serial-full4", rnd_seed), 4, "noisy_factory", 9, "exploitability", 10, 2, 1, rnd_seed)
        call_rewards(("serial-full4-l1", rnd_seed), 4, "factory_fixed", 9, "l1_norm", 1000, 1, 1, rnd_seed)
        call_rewards(("serial-5", rnd_seed), 5, "noisy_factory", 9, "l2_norm", 2, 2, 1, rnd_seed)
        call_rewards(("serial-ref", rnd_seed), 3, "noisy_factory", 9, "exploitability", 3, 2, 1, rnd_seed,
                     game_class="superadditive")
    # exceptional / degenerate arguments
    for rnd_seed in (None, 3):
        for max_steps, repetitions in ((-1, 1), (-5, 2), (2, 0), (0, 0), (2, -1), (1.5, 1), (None, 1), (2, None),
                                       ("2", 1), (True, 1)):
            call_rewards(("serial-bad", rnd_seed, repr(max_steps), repr(repetitions)), 3, "factory", 1,
                         "exploitability", max_steps, repetitions, 1, rnd_seed)
        call_rewards(("serial-linear", rnd_seed), 3, "factory", 1, "exploitability", 2, 1, 1, rnd_seed, linear=True)
    rec(("bad env",), lambda: get_greedy_rewards(object(), 1, 1, GAP_FUNCTIONS["exploitability"]))
    rec(("bad gap",), lambda: get_greedy_rewards(ModelInstance(number_of_players=3, seed=1, unique_name="u").get_env(),
                                                 1, 1, None))

    # ---- greedy_func with `save` captured ---------------------------------------------------------------------------
    captured = []
    real_save = greedy_mod.save
    greedy_mod.save = lambda model_dir, unique_name, output: captured.append(
        (str(model_dir), unique_name, arr(output.data), arr(output.actions), output.actions_list, output.data_list,
         sorted(vars(output.parsed_args))))
    k = 0
    for n in (3, 4):
        for gen in ("factory", "noisy_factory", "factory_fixed", "graph_random"):
            for randomize in (False, True):
                for limit in ((None, 0, 1, 2, 3, 50) if n == 3 else (0, 1, 2)):
                    k += 1
                    n_calls += 1
                    inst = ModelInstance(number_of_players=n, game_class="superadditive_cached", game_generator=gen,
                                         seed=k, gap_function=gaps[k % len(gaps)], unique_name=f"run{k}",
                                         run_steps_limit=limit, parallel_environments=1 + k % 2,
                                         model_dir=Path("/nonexistent/x"))
                    args = Namespace(sampling_repetitions=1 + k % 3, func="greedy")
                    tag = ("greedy_func", n, gen, randomize, limit)
                    captured.clear()
                    rec(tag, lambda: greedy_func(inst, args, randomize))
                    out.append((tag, "saved", list(captured), inst.run_steps_limit))
    for linear in (True,):
        inst = ModelInstance(number_of_players=3, seed=1, unique_name="u", linear=linear, run_steps_limit=2)
        rec(("greedy_func linear",), lambda: greedy_func(inst, Namespace(sampling_repetitions=1, func="greedy")))
    rec(("greedy_func no repetitions arg",), lambda: greedy_func(
        ModelInstance(number_of_players=3, seed=1, unique_name="u", run_steps_limit=2), Namespace(func="greedy")))
    greedy_mod.save = real_save

    # parser helper (untouched, but in the same module)
    import argparse
    for randomize in (False, True):
        ap = argparse.ArgumentParser()
        add_greedy_parser(ap, randomize)
        ns = ap.parse_args(["--sampling-repetitions", "4"])
        out.append(("parser", randomize, ns.sampling_repetitions, ns.func.func.__name__, ns.func.func.__module__,
                    ns.func.args, ns.func.keywords, pickle.dumps(ns.func, protocol=4)))

    # ---- real pools, real save ---------------------------------------------------------------------------------------
    gameplay.Pool = real_pool
    for processes in (1, 2):
        for rnd_seed in (None, 11):
            call_rewards(("pool", 3, processes, rnd_seed), 3, "noisy_factory", 2, "exploitability", 3, 2, processes,
                         rnd_seed)
            call_rewards(("pool", 4, processes, rnd_seed), 4, "factory", 2, "l1_norm", 1, 3, processes, rnd_seed)
    with tempfile.TemporaryDirectory(prefix="equiv3_save_") as d:
        for randomize in (False, True):
            inst = ModelInstance(number_of_players=3, game_class="superadditive_cached", game_generator="noisy_factory",
                                 seed=31, unique_name=f"saved-{randomize}", run_steps_limit=3,
                                 parallel_environments=2, model_dir=Path(d) / "m")
            rec(("real save", randomize),
                lambda: greedy_func(inst, Namespace(sampling_repetitions=2, func="greedy"), randomize))
        rec(("real save files",), lambda: sorted(str(p.relative_to(d)) for p in Path(d).rglob("*")))
        rec(("real save data.json",), lambda: (Path(d) / "m" / "data.json").read_bytes())
        rec(("real save pngs",), lambda: [hashlib.sha256(p.read_bytes()).hexdigest()
                                          for p in sorted(Path(d).rglob("*.png"))])

    out.append(("calls", n_calls))
    with open(out_path, "wb") as f:
        pickle.dump(out, f, protocol=4)


def main():
    new_root = os.environ.get("EQUIV_NEW_ROOT", WORKTREE)
    with tempfile.TemporaryDirectory(prefix="equiv3_") as tmp:
        orig = os.path.join(tmp, "orig")
        os.mkdir(orig)
        data = subprocess.run(["git", "archive", "HEAD", "incomplete_cooperative"], cwd=WORKTREE,
                              check=True, capture_output=True).stdout
        tarfile.open(fileobj=io.BytesIO(data)).extractall(orig)
        outs, procs = {}, {}
        for name, root in (("orig", orig), ("new", new_root)):
            env = dict(os.environ, PYTHONPATH=root, EXPECT_ROOT=root, PYTHONHASHSEED="0", OMP_NUM_THREADS="1",
                       PYTHONDONTWRITEBYTECODE="1", MPLBACKEND="Agg")
            outs[name] = os.path.join(tmp, name + ".pkl")
            procs[name] = subprocess.Popen([PYTHON, os.path.abspath(__file__), "--worker", outs[name]],
                                           env=env, cwd=tmp)
        for name, p in procs.items():
            if p.wait() != 0:
                print(f"worker {name} failed")
                return 2
        ra, rb = (pickle.load(open(outs[k], "rb")) for k in ("orig", "new"))
        n_exc = sum(1 for x in ra if len(x) > 1 and x[1] == "exc")
        print(f"records: {len(ra)} vs {len(rb)}; exceptional outcomes in original: {n_exc}; {ra[-1]}")
        if len(ra) != len(rb):
            print("DIFFERENT number of records")
            return 1
        bad = 0
        for x, y in zip(ra, rb):
            if pickle.dumps(x, protocol=4) != pickle.dumps(y, protocol=4):
                bad += 1
                if bad <= 10:
                    print("DIFF", x[0], "\n   orig:", repr(x[1:])[:400], "\n   new: ", repr(y[1:])[:400])
        if bad:
            print(f"{bad} differing records")
            return 1
        print("IDENTICAL")
        return 0


if __name__ == "__main__":
    if len(sys.argv) > 2 and sys.argv[1] == "--worker":
        worker(sys.argv[2])
    else:
        sys.exit(main())
