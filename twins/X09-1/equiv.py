#!/usr/bin/env python
"""Differential equivalence check for patch_1 (incomplete_cooperative/normalize.py).

Runs the same deterministic workload against the ORIGINAL sources (git archive HEAD) and against the current
worktree (patch applied), each in its own interpreter, and compares the canonicalised outcomes exactly.
Exit status 0 iff everything is identical.
"""
import os
import pickle
import struct
import subprocess
import sys
import tempfile

WORKTREE = "/tmp/wt_x4_X09"


# --------------------------------------------------------------------------------------------------------------------
# canonical form of outcomes: nested tuples of tagged primitives / raw bytes (NaN-safe, dtype- and shape-exact)
# --------------------------------------------------------------------------------------------------------------------
def canon(x):
    import numpy as np
    from argparse import Namespace
    from pathlib import PurePath
    if x is None or type(x) in (str, bytes):
        return x
    if isinstance(x, (str, bytes)):
        return ("sub", type(x).__name__, str(x) if isinstance(x, str) else bytes(x))
    if isinstance(x, bool):
        return ("bool", int(x))
    if isinstance(x, np.ndarray):
        if x.dtype == object:
            return ("ndo", x.shape, tuple(canon(y) for y in x.ravel().tolist()))
        return ("nd", x.dtype.str, x.shape, np.ascontiguousarray(x).tobytes())
    if isinstance(x, np.generic):
        return ("npscalar", x.dtype.str, x.tobytes())
    if isinstance(x, int):
        return ("int", type(x).__name__, int(x))
    if isinstance(x, float):
        return ("float", struct.pack("<d", x))
    if isinstance(x, (list, tuple)):
        return (type(x).__name__, tuple(canon(y) for y in x))
    if isinstance(x, dict):
        return ("dict", tuple((canon(k), canon(v)) for k, v in x.items()))
    if isinstance(x, (set, frozenset)):
        return ("set", tuple(sorted(repr(canon(y)) for y in x)))
    if isinstance(x, PurePath):
        return ("path", str(x))
    if isinstance(x, Namespace):
        return ("ns", canon(vars(x)))
    if isinstance(x, BaseException):
        return ("exc", type(x).__name__, str(x))
    cls = type(x).__name__
    if hasattr(x, "_values") and hasattr(x, "number_of_players"):
        return ("game", cls, x.number_of_players, canon(x._values))
    if hasattr(x, "_graph_matrix"):
        return ("graphgame", cls, x.number_of_players, canon(x._graph_matrix))
    if cls == "Coalition":
        return ("coalition", x.id)
    return ("obj", cls)


def attempt(fn, *args, **kwargs):
    """Call and canonicalise result or exception."""
    try:
        return ("ok", canon(fn(*args, **kwargs)))
    except BaseException as e:  # noqa
        return canon(e)


# --------------------------------------------------------------------------------------------------------------------
# the workload (runs in a subprocess with PYTHONPATH pointing to one of the two trees)
# --------------------------------------------------------------------------------------------------------------------
def driver(out_path, expected_root):
    import warnings
    warnings.filterwarnings("ignore")
    import numpy as np

    import incomplete_cooperative
    assert os.path.realpath(incomplete_cooperative.__file__).startswith(os.path.realpath(expected_root)), \
        (incomplete_cooperative.__file__, expected_root)
    from incomplete_cooperative import normalize as N
    from incomplete_cooperative.bounds import BOUNDS
    from incomplete_cooperative.coalitions import (Coalition, all_coalitions,
                                                   minimal_game_coalitions)
    from incomplete_cooperative.game import IncompleteCooperativeGame
    from incomplete_cooperative.generators import GENERATORS
    from incomplete_cooperative.graph_game import GraphCooperativeGame
    from incomplete_cooperative.icg_gym import ICG_Gym
    from incomplete_cooperative.run.model import GAP_FUNCTIONS

    # some graph families draw from a module-level generator seeded from OS entropy: pin its state
    from incomplete_cooperative import generators as G
    G._gen.bit_generator.state = np.random.default_rng(20240229).bit_generator.state

    results = []

    def rec(tag, value):
        results.append((tag, value))

    # public names stay where they were
    original_names = ('Any', 'Game', 'GraphCooperativeGame', 'IncompleteCooperativeGame', 'MutableGame', 'NormInfo',
                      'NormalizableGame', 'Value', '_denormalize_graph_game', '_get_norminfo', '_normalize_graph_game',
                      '_normalize_icg', 'all_coalitions', 'denormalize_game', 'grand_coalition', 'normalize_game', 'np',
                      'player_to_coalition')
    rec("names", tuple((n, hasattr(N, n)) for n in original_names))
    rec("all_callables", tuple((n, callable(getattr(N, n))) for n in (
        "normalize_game", "denormalize_game", "_normalize_icg", "_normalize_graph_game", "_denormalize_graph_game",
        "_get_norminfo", "NormInfo", "NormalizableGame")))

    def roundtrip(tag, game, prepare=None):
        """normalize + denormalize one game, recording everything observable."""
        rec(tag + "/norminfo", attempt(N._get_norminfo, game))
        g = game.copy()
        if prepare is not None:
            prepare(g)
        rec(tag + "/normalize", attempt(N.normalize_game, g))
        rec(tag + "/normalized", canon(g))
        info = None
        try:
            info = N._get_norminfo(game)
        except Exception:  # noqa
            pass
        if info is not None:
            rec(tag + "/denormalize", attempt(N.denormalize_game, g, info))
            rec(tag + "/denormalized", canon(g))
            # denormalising with a different info, on the untouched game
            h = game.copy()
            other = (np.float64(-2.5), np.arange(game.number_of_players, dtype=np.float64) / 3)
            rec(tag + "/denormalize_other", attempt(N.denormalize_game, h, other))
            rec(tag + "/denormalized_other", canon(h))

    # 1. every registered generator family, several sizes and seeds
    skipped = []
    for name in GENERATORS:
        for n in (3, 4, 5):
            for seed in (0, 1, 2):
                rng = np.random.default_rng([seed, n, 17])
                try:
                    game = GENERATORS[name](n, rng)
                except BaseException as e:  # generator not usable in this environment: same on both sides
                    skipped.append((name, n, seed, type(e).__name__))
                    continue
                roundtrip(f"gen/{name}/{n}/{seed}", game)
    rec("skipped", tuple(skipped))

    # 2. hand-made incomplete-cooperative games hitting every branch of _normalize_icg
    rng = np.random.default_rng(12345)
    for n in (1, 2, 3, 4, 5, 6):
        size = 2**n
        for k in range(12):
            kind = k % 6
            vals = rng.normal(size=size) * 10.0**rng.integers(-3, 4)
            vals[0] = 0
            if kind == 1:    # additive: the zero branch
                w = rng.normal(size=n)
                vals = np.array([sum(w[i] for i in Coalition(c).players) for c in range(size)])
            elif kind == 2:  # additive with huge scale
                w = rng.normal(size=n) * 1e12
                vals = np.array([sum(w[i] for i in Coalition(c).players) for c in range(size)])
            elif kind == 3:  # integers
                vals = np.rint(vals)
            elif kind == 4:  # all zero
                vals = np.zeros(size)
            elif kind == 5:  # inf / nan inside
                vals[rng.integers(0, size)] = np.inf if k % 2 else np.nan
            game = IncompleteCooperativeGame(n, BOUNDS["superadditive"])
            game.set_values(vals)
            roundtrip(f"icg/{n}/{k}", game)

            # partially known game: normalisation must fail in the same way, leaving the same state
            if n >= 2:
                part = IncompleteCooperativeGame(n)
                known = list(minimal_game_coalitions(n))
                part.set_known_values(vals[[c.id for c in known]], known)
                rec(f"icg-partial/{n}/{k}/normalize", attempt(N.normalize_game, part))
                rec(f"icg-partial/{n}/{k}/state", canon(part))
                rec(f"icg-partial/{n}/{k}/denormalize", attempt(N.denormalize_game, part, (np.float64(2), np.ones(n))))
                rec(f"icg-partial/{n}/{k}/state2", canon(part))

    # 3. hand-made graph games, zero total weight included (falsy branch), subclasses
    class MyGraph(GraphCooperativeGame):
        pass

    class MyICG(IncompleteCooperativeGame):
        pass

    for n in (1, 2, 3, 4, 5, 6):
        for k in range(10):
            m = rng.normal(size=(n, n)) * 10.0**rng.integers(-2, 3)
            if k % 5 == 1:
                m = np.zeros((n, n))
            elif k % 5 == 2:
                m = np.rint(m)
            elif k % 5 == 3 and n > 1:
                m = np.triu(m, 1)
                m[0, 1] = -m.sum() + m[0, 1]  # grand coalition value (close to) zero
            game = (MyGraph if k % 2 else GraphCooperativeGame)(m)
            # dirty the lower triangle behind the back of the constructor (copies are polished): the normaliser cleans it
            def dirty(g, n=n):
                g._graph_matrix[n - 1, 0] = 7.0
                g._graph_matrix[0, 0] = -3.0
                g._graph_matrix[n - 1, n - 1] = np.nan
            roundtrip(f"graph/{n}/{k}", game, dirty if k % 5 in (0, 4) else None)
        sub = MyICG(n)
        sub.set_values(rng.normal(size=2**n))
        roundtrip(f"subicg/{n}", sub)

    # 4. unknown game types
    class Dummy:
        def __init__(self, n, vals):
            self.number_of_players = n
            self.vals = np.array(vals, dtype=float)

        def get_values(self, coalitions=None):
            if coalitions is None:
                return self.vals
            return self.vals[[c.id for c in coalitions]]

        def get_value(self, coalition):
            return self.vals[coalition.id]

        def set_value(self, value, coalition):
            self.vals[coalition.id] = value

        def copy(self):  # with `__add__`: satisfies the runtime-checkable `Game` protocol
            return Dummy(self.number_of_players, self.vals)

        def __add__(self, other):
            return Dummy(self.number_of_players, self.vals + other.vals)

    for n in (2, 3, 4):
        d = Dummy(n, rng.normal(size=2**n))
        rec(f"dummy/{n}/normalize", attempt(N.normalize_game, d))
        rec(f"dummy/{n}/state", canon(d.vals))
        rec(f"dummy/{n}/denormalize", attempt(N.denormalize_game, d, (np.float64(3.0), np.arange(n) * 1.5)))
        rec(f"dummy/{n}/state2", canon(d.vals))
    for bad in (None, 3, "game", object()):
        rec(f"bad/{type(bad).__name__}/normalize", attempt(N.normalize_game, bad))
        rec(f"bad/{type(bad).__name__}/denormalize", attempt(N.denormalize_game, bad, (1.0, np.zeros(2))))
    icg = IncompleteCooperativeGame(3)
    icg.set_values(np.arange(8.0))
    for bad_info in (None, (1.0,), (1.0, np.zeros(1)), (1.0, np.zeros(3), 5), "ab"):
        g = icg.copy()
        rec(f"badinfo/{bad_info!r}", attempt(N.denormalize_game, g, bad_info))
        rec(f"badinfo/{bad_info!r}/state", canon(g))
        gg = GraphCooperativeGame(np.ones((3, 3)))
        rec(f"badinfo-graph/{bad_info!r}", attempt(N.denormalize_game, gg, bad_info))
        rec(f"badinfo-graph/{bad_info!r}/state", canon(gg))

    # 5. through the environment (reset normalises the hidden game): observations depend on the normalised copy
    for gen_name in ("factory", "graph", "xos", "graph_cycle", "noisy_factory_exp", "k_budget_generator"):
        for n in (3, 4):
            for gap_name, gap in GAP_FUNCTIONS.items():
                grng = np.random.default_rng([n, 99])
                arng = np.random.default_rng([n, 7])
                game = IncompleteCooperativeGame(n, BOUNDS["superadditive"])
                env = ICG_Gym(game, lambda: GENERATORS[gen_name](n, grng), minimal_game_coalitions(n), gap, None)
                tag = f"gym/{gen_name}/{n}/{gap_name}"
                for episode in range(2):
                    rec(tag + f"/reset{episode}", attempt(env.reset))
                    rec(tag + f"/normalized{episode}", canon(env.normalized_game))
                    order = arng.permutation(len(env.explorable_coalitions))
                    for a in order[: 3 + episode]:
                        rec(tag + f"/step{episode}/{a}", attempt(env.step, int(a)))

    with open(out_path, "wb") as f:
        pickle.dump(results, f, protocol=4)


# --------------------------------------------------------------------------------------------------------------------
def main():
    with tempfile.TemporaryDirectory(prefix="equiv1_") as tmp:
        orig = os.path.join(tmp, "orig")
        os.makedirs(orig)
        archive = subprocess.Popen(["git", "-C", WORKTREE, "archive", "HEAD", "incomplete_cooperative"],
                                   stdout=subprocess.PIPE)
        subprocess.check_call(["tar", "-x", "-C", orig], stdin=archive.stdout)
        assert archive.wait() == 0
        run_dir = os.path.join(tmp, "run")
        os.makedirs(run_dir)
        loaded = {}
        raw = {}
        second = orig if "--selfcheck" in sys.argv else WORKTREE  # --selfcheck: original against itself (determinism)
        for label, root in (("orig", orig), ("new", second)):
            out = os.path.join(tmp, label + ".pkl")
            env = dict(os.environ, PYTHONPATH=root, OMP_NUM_THREADS="1", PYTHONHASHSEED="0", MPLBACKEND="Agg",
                       PYTHONDONTWRITEBYTECODE="1")
            subprocess.check_call([sys.executable, os.path.abspath(__file__), "--driver", out, root],
                                  env=env, cwd=run_dir)
            with open(out, "rb") as f:
                raw[label] = f.read()
            loaded[label] = pickle.loads(raw[label])
    a, b = loaded["orig"], loaded["new"]
    bad = 0
    if len(a) != len(b):
        print(f"DIFFERENT number of outcomes: {len(a)} vs {len(b)}")
        bad += 1
    for (ta, va), (tb, vb) in zip(a, b):
        if ta != tb or va != vb:
            bad += 1
            if bad < 20:
                print("DIFF at", ta, tb, "\n   orig:", repr(va)[:300], "\n   new: ", repr(vb)[:300])
    nexc = sum(1 for _, v in a if isinstance(v, tuple) and v and v[0] == "exc")
    print(f"{len(a)} outcomes compared ({nexc} of them exceptions), pickles byte-equal: {raw['orig'] == raw['new']}, "
          f"differences: {bad}")
    sys.exit(1 if bad else 0)


if __name__ == "__main__":
    if len(sys.argv) > 1 and sys.argv[1] == "--driver":
        driver(sys.argv[2], sys.argv[3])
    else:
        main()
