"""Differential test for refactoring 2 (game.py: negation moved to a module-level function, `is None` guard of
set_values restructured into a row selector, get_values reads the column after the check).

Run with cwd=/tmp/wt12/W01.  Loads the ORIGINAL sources from git (HEAD) into a temporary package `ic_orig` and the
working-tree sources into `ic_new`, applies identical random sequences of public operations to a game of each and compares
every returned value, every exception and the whole value table after every step, exactly.
"""
import importlib
import os
import shutil
import subprocess
import sys
import tempfile
import warnings

import numpy as np

warnings.simplefilter("ignore")

WT = os.getcwd()
PKG = "incomplete_cooperative"
MODULES = ["__init__", "protocols", "functoolz", "coalitions", "coalition_ids", "game", "bounds", "game_properties"]


def _load(name, original):
    root = tempfile.mkdtemp(prefix=f"{name}_")
    os.makedirs(os.path.join(root, name))
    for mod in MODULES:
        rel = f"{PKG}/{mod}.py"
        if original:
            src = subprocess.run(["git", "-C", WT, "show", f"HEAD:{rel}"], check=True, capture_output=True).stdout
        else:
            with open(os.path.join(WT, rel), "rb") as f:
                src = f.read()
        with open(os.path.join(root, name, f"{mod}.py"), "wb") as f:
            f.write(src)
    sys.path.insert(0, root)
    importlib.invalidate_caches()
    mods = {m: importlib.import_module(f"{name}.{m}") for m in MODULES if m != "__init__"}
    return root, mods


class Different(Exception):
    pass


def same(a, b):
    """Exact, type-aware equality."""
    if isinstance(a, np.ndarray) or isinstance(b, np.ndarray):
        return (isinstance(a, np.ndarray) and isinstance(b, np.ndarray) and a.dtype == b.dtype
                and a.shape == b.shape and np.array_equal(a, b, equal_nan=a.dtype.kind in "fc"))
    if isinstance(a, (tuple, list)) or isinstance(b, (tuple, list)):
        return (isinstance(a, (tuple, list)) and isinstance(b, (tuple, list)) and isinstance(a, tuple) == isinstance(b, tuple)
                and len(a) == len(b) and all(same(x, y) for x, y in zip(a, b)))
    if type(a).__name__ != type(b).__name__:
        return False
    if isinstance(a, (float, np.floating)):
        return bool((np.isnan(a) and np.isnan(b)) or a == b)
    return a == b


def call(f, *args, **kwargs):
    try:
        return ("ok", f(*args, **kwargs))
    except BaseException as e:  # noqa
        return ("exc", type(e).__name__, str(e))


def check(label, a, b):
    if not same(a, b):
        raise Different(f"{label}\n  original: {a!r}\n  refactored: {b!r}")


SPECIAL = [0.0, -0.0, 1.0, -1.0, 0.5, 3.0, 1e300, -1e300, np.inf, -np.inf, np.nan, 2.0**-1074, 7, -3]


def rand_value(rng):
    r = rng.random()
    if r < 0.25:
        return SPECIAL[int(rng.integers(len(SPECIAL)))]
    if r < 0.5:
        return int(rng.integers(-5, 6))
    return float(rng.normal() * 10)


def rand_ids(rng, n, allow_bad=True):
    size = 2**n
    k = int(rng.integers(0, size + 2))
    ids = [int(x) for x in rng.integers(0, size, size=k)]
    if rng.random() < 0.5:
        ids = list(dict.fromkeys(ids))
    if allow_bad and rng.random() < 0.05:
        ids.append(size + int(rng.integers(0, 3)))  # out of range
    if allow_bad and rng.random() < 0.05:
        ids.append(-int(rng.integers(1, 3)))  # negative index
    return ids


def make_ops(rng, n, length):
    """Decide a sequence of operations once; they are replayed on both implementations."""
    size = 2**n
    names = ["set_value", "unset_value", "set_values", "set_values_all", "set_known_values", "set_known_values_all",
             "reveal_value", "unreveal_value", "get_value", "get_values", "get_values_all", "get_known_value",
             "get_known_values", "get_known_values_all", "is_value_known", "are_values_known", "get_bounds",
             "get_interval", "get_intervals", "set_upper_bounds", "set_lower_bounds", "set_upper_bounds_all",
             "set_lower_bounds_all", "set_bound", "neg", "neg_neg", "copy", "add", "eq", "full", "compute_bounds",
             "init_values", "set_values_self_view", "set_known_values_self_view"]
    ops = []
    for _ in range(length):
        name = names[int(rng.integers(len(names)))]
        ids = rand_ids(rng, n)
        delta = int(rng.choice([0, 0, 0, 0, 1, -1]))  # sometimes a wrong number of values
        nvals = max(0, len(ids) + delta)
        vals = [rand_value(rng) for _ in range(nvals)]
        allvals = [rand_value(rng) for _ in range(size + int(rng.choice([0, 0, 0, 0, 0, 1, -1])))]
        ops.append(dict(name=name, c=int(rng.integers(0, size + (rng.random() < 0.03))), ids=ids, vals=vals, allvals=allvals,
                        v=rand_value(rng), as_gen=bool(rng.random() < 0.4), scalar=bool(rng.random() < 0.1),
                        which=int(rng.integers(2))))
    return ops


def apply(mods, game, op):
    """Apply one operation; return (result, extra objects to compare)."""
    C = mods["coalitions"].Coalition
    name = op["name"]
    ids = op["ids"]

    def coalitions():
        lst = [C(i) for i in ids]
        return (x for x in lst) if op["as_gen"] else lst

    vals = np.array(op["vals"], dtype=float)
    allvals = np.array(op["allvals"], dtype=float)
    if op["scalar"]:
        vals = op["v"]
        allvals = op["v"]
    c = C(op["c"])
    if name == "set_value":
        return call(game.set_value, op["v"], c)
    if name == "unset_value":
        return call(game.unset_value, c)
    if name == "set_values":
        return call(game.set_values, vals, coalitions())
    if name == "set_values_all":
        return call(game.set_values, allvals) if op["which"] else call(game.set_values, allvals, None)
    if name == "set_known_values":
        v = op["vals"] if not op["as_gen"] else (x for x in op["vals"])
        return call(game.set_known_values, v, coalitions())
    if name == "set_known_values_all":
        return call(game.set_known_values, op["allvals"])
    if name == "reveal_value":
        return call(game.reveal_value, op["v"], c)
    if name == "unreveal_value":
        return call(game.unreveal_value, c)
    if name == "get_value":
        return call(game.get_value, c)
    if name == "get_values":
        return call(game.get_values, coalitions())
    if name == "get_values_all":
        return call(game.get_values)
    if name == "get_known_value":
        return call(game.get_known_value, c)
    if name == "get_known_values":
        return call(game.get_known_values, coalitions())
    if name == "get_known_values_all":
        return call(game.get_known_values)
    if name == "is_value_known":
        return call(game.is_value_known, c)
    if name == "are_values_known":
        return call(game.are_values_known, coalitions() if op["which"] else None)
    if name == "get_bounds":
        return (call(game.get_upper_bound, c), call(game.get_lower_bound, c), call(game.get_upper_bounds, coalitions()),
                call(game.get_lower_bounds, coalitions()), call(game.get_upper_bounds), call(game.get_lower_bounds))
    if name == "get_interval":
        return call(game.get_interval, c)
    if name == "get_intervals":
        return call(game.get_intervals, coalitions() if op["which"] else None)
    if name == "set_upper_bounds":
        return call(game.set_upper_bounds, vals, coalitions())
    if name == "set_lower_bounds":
        return call(game.set_lower_bounds, vals, coalitions())
    if name == "set_upper_bounds_all":
        return call(game.set_upper_bounds, allvals)
    if name == "set_lower_bounds_all":
        return call(game.set_lower_bounds, allvals)
    if name == "set_bound":
        return call(game.set_upper_bound if op["which"] else game.set_lower_bound, op["v"], c)
    if name == "neg":
        before = game._values.copy()
        res = call(lambda: -game)
        if res[0] == "ok":
            neg = res[1]
            shares = np.shares_memory(neg._values, game._values)
            untouched = same(before, game._values)
            neg.set_value(123.0, C(0))  # the negated copy is independent
            independent = same(before, game._values)
            return ("ok", type(neg).__name__, neg._values.copy(), shares, untouched, independent,
                    neg._bounds_computer is game._bounds_computer, neg.number_of_players)
        return res
    if name == "neg_neg":
        res = call(lambda: -(-game))
        return ("ok", res[1]._values.copy()) if res[0] == "ok" else res
    if name == "copy":
        cp = game.copy()
        cp.set_value(5.0, C(0))
        return ("ok", cp._values.copy(), np.shares_memory(cp._values, game._values))
    if name == "add":
        other = game.copy() if op["which"] else -game
        res = call(lambda: game + other)
        return ("ok", res[1]._values.copy()) if res[0] == "ok" else res
    if name == "eq":
        other = game.copy()
        if op["which"]:
            other.set_value(op["v"], c) if op["c"] < 2**game.number_of_players else None
        return (call(lambda: game == other), call(lambda: game == 3), call(lambda: game == -game))
    if name == "full":
        return call(lambda: game.full)
    if name == "compute_bounds":
        return call(game.compute_bounds)
    if name == "init_values":
        return call(game._init_values)
    if name == "set_values_self_view":
        # the values are a view of the table of this very game
        view = game.get_upper_bounds() if op["which"] else game.get_lower_bounds()
        return call(game.set_values, view[::-1])
    if name == "set_known_values_self_view":
        return call(game.set_known_values, game.get_lower_bounds()[::-1])
    raise AssertionError(name)


def main():
    root_o, orig = _load("ic_orig", True)
    root_n, new = _load("ic_new", False)
    cases = 0
    steps = 0
    try:
        # attributes / class constants of the class are unchanged
        Go, Gn = orig["game"].IncompleteCooperativeGame, new["game"].IncompleteCooperativeGame
        check("public names", sorted(x for x in vars(Go) if not x.startswith("__")),
              sorted(x for x in vars(Gn) if not x.startswith("__")))
        check("dunder names", sorted(x for x in vars(Go) if x.startswith("__") and x not in ("__doc__",)),
              sorted(x for x in vars(Gn) if x.startswith("__") and x not in ("__doc__",)))
        check("index constants", (Go._values_is_known_index, Go._values_lower_index, Go._values_upper_index),
              (Gn._values_is_known_index, Gn._values_lower_index, Gn._values_upper_index))
        for seed in range(600):
            rng = np.random.default_rng(seed)
            n = int(rng.integers(0, 5))
            computer_name = [None, "superadditive", "superadditive_cached", "sam_apx_1"][seed % 4]
            ops = make_ops(rng, n, int(rng.integers(5, 40)))
            games = []
            for mods in (orig, new):
                G = mods["game"].IncompleteCooperativeGame
                g = G(n) if computer_name is None else G(n, mods["bounds"].BOUNDS[computer_name])
                games.append(g)
            check(f"seed={seed} initial table", games[0]._values, games[1]._values)
            for i, op in enumerate(ops):
                ro = apply(orig, games[0], op)
                rn = apply(new, games[1], op)
                label = f"seed={seed} n={n} computer={computer_name} step={i} op={op}"
                check(label + " [result]", ro, rn)
                check(label + " [table]", games[0]._values, games[1]._values)
                check(label + " [table layout]", (games[0]._values.flags["C_CONTIGUOUS"], games[0]._values.flags["OWNDATA"]),
                      (games[1]._values.flags["C_CONTIGUOUS"], games[1]._values.flags["OWNDATA"]))
                steps += 1
            cases += 1
    except Different as e:
        print("DIFFERENT")
        print(e)
        return 1
    finally:
        shutil.rmtree(root_o, ignore_errors=True)
        shutil.rmtree(root_n, ignore_errors=True)
    print(f"EQUIVALENT ({cases} operation sequences, {steps} compared steps)")
    return 0


if __name__ == "__main__":
    sys.exit(main())
