"""Differential test of refactoring 3 (`best_states_func` collects the per-repetition gap blocks and stacks them once).

Run with cwd=/tmp/wt12/W10.  The ORIGINAL package is exported from git (`git archive HEAD incomplete_cooperative`) into a
temporary directory; the same scenario list is then executed in two fresh interpreters, one importing the original package
and one importing the refactored worktree.  Every scenario is reduced to a canonical picklable value (array dtype / shape /
raw bytes, file bytes, exception type and message, state of the mutated inputs) and the two lists are compared exactly.
"""
from __future__ import annotations

import io
import os
import pickle
import subprocess
import sys
import tarfile
import tempfile
from pathlib import Path

WORKTREE = Path("/tmp/wt12/W10")
PYTHON = "/venv/bin/python"


# --------------------------------------------------------------------------------------------------------------------
# worker: runs inside a fresh interpreter with `root` first on sys.path
# --------------------------------------------------------------------------------------------------------------------
def canon(obj):
    """Reduce a value to something picklable whose equality is exact (bit for bit for arrays and floats)."""
    import argparse
    import numpy as np
    if isinstance(obj, np.ndarray):
        if obj.dtype == object:
            return ("ndarray-object", obj.shape, canon(obj.tolist()))
        return ("ndarray", str(obj.dtype), obj.shape, np.ascontiguousarray(obj).tobytes(),
                obj.flags["C_CONTIGUOUS"], obj.flags["WRITEABLE"])
    if isinstance(obj, np.generic):
        return ("npscalar", str(obj.dtype), obj.tobytes())
    if isinstance(obj, float):
        import struct
        return ("float", struct.pack("<d", obj))
    if isinstance(obj, (bool, int, str, bytes, type(None))):
        return (type(obj).__name__, obj)
    if isinstance(obj, dict):
        return ("dict", type(obj).__name__, [(canon(k), canon(v)) for k, v in obj.items()])  # order matters
    if isinstance(obj, (list, tuple)):
        return (type(obj).__name__, [canon(x) for x in obj])
    if isinstance(obj, argparse.Namespace):
        return ("Namespace", canon(vars(obj)))
    if isinstance(obj, BaseException):
        return ("exception", type(obj).__name__, str(obj))
    return ("repr", type(obj).__name__, repr(obj))


def attempt(fn):
    """Call `fn` and return its canonical result or its canonical exception."""
    try:
        return ("ok", canon(fn()))
    except BaseException as e:  # noqa: B902 - KeyboardInterrupt etc. are part of the comparison
        return ("raised", type(e).__name__, str(e))


def tree_snapshot(root: Path):
    """All files below `root` with their bytes, sorted."""
    return sorted((str(p.relative_to(root)), p.read_bytes() if p.is_file() else None) for p in root.rglob("*"))


def worker(root: str, out_file: str) -> None:
    sys.path.insert(0, root)
    import itertools
    import logging
    from argparse import Namespace
    from unittest.mock import patch

    import numpy as np

    import incomplete_cooperative
    assert Path(incomplete_cooperative.__file__).resolve().is_relative_to(Path(root).resolve()), incomplete_cooperative.__file__
    from incomplete_cooperative.bounds import BOUNDS
    from incomplete_cooperative import generators as generators_mod
    from incomplete_cooperative.generators import GENERATORS
    from incomplete_cooperative.run import best_states as bs_mod
    from incomplete_cooperative.run import save as save_mod
    from incomplete_cooperative.run.model import GAP_FUNCTIONS, ModelInstance
    assert Path(bs_mod.__file__).resolve().is_relative_to(Path(root).resolve())
    logging.disable(logging.CRITICAL)

    scratch = Path(tempfile.mkdtemp(prefix="equiv3_")).resolve()
    os.chdir(scratch)
    results = []

    def run(kwargs, real_savers=False, stub=None):
        """Run `best_states_func`; return what reached the savers, the rng state afterwards, and the files."""
        # the graph generators draw from an unseeded module-level generator: give it a known state (the registry entries
        # hold bound methods of this very object, so the state has to be set in place)
        generators_mod._gen.bit_generator.state = np.random.default_rng(kwargs["seed"] + 99).bit_generator.state
        ns = Namespace(**kwargs)
        instance = ModelInstance.from_parsed_arguments(ns)
        seen = []

        def capture(path, unique_name, output):
            seen.append((str(path), unique_name, output.data, output.actions, output.parsed_args is ns,
                         output.data_list, output.actions_list))
        patches = []
        if not real_savers:
            patches.append(patch.object(save_mod, "SAVERS", {"capture": capture}))
        if stub is not None:
            patches.append(patch.object(bs_mod, "get_best_exploitability", stub))
        for p in patches:
            p.start()
        try:
            outcome = attempt(lambda: bs_mod.best_states_func(instance, ns))
        finally:
            for p in patches:
                p.stop()
        rng_state = instance.game_generator_rng.bit_generator.state
        files = None
        if real_savers:
            model_dir = Path(kwargs["model_dir"])
            data_json = model_dir / "data.json"
            files = (data_json.read_bytes() if data_json.exists() else None,
                     sorted(str(p.relative_to(model_dir)) for p in model_dir.rglob("*")) if model_dir.exists() else None)
        return (outcome, canon(seen), canon(rng_state), canon(generators_mod._gen.bit_generator.state),
                canon(instance.run_steps_limit), canon(files))

    # ---- 1. the stacking itself, with a stub search: many repetitions, NaN rows, signed zeros, infinities, denormals
    rng = np.random.default_rng(4242)
    specials = np.array([np.nan, -0.0, 0.0, np.inf, -np.inf, 5e-324, 1e308, -1.0])
    case = 0
    for steps, sampling, evals in itertools.product(range(0, 5), range(1, 5), range(0, 7)):
        for variant in range(4):
            case += 1
            stub_rng = np.random.default_rng(case)
            calls = []

            def stub(env, max_steps, repetitions, gap_func, processes=1):
                calls.append((type(env).__name__, max_steps, repetitions, processes))
                block = stub_rng.normal(size=(max_steps + 1, repetitions))
                if variant == 1:
                    block[stub_rng.random(max_steps + 1) < 0.4] = np.nan  # sizes never seen
                elif variant == 2:
                    block = stub_rng.choice(specials, size=block.shape)
                elif variant == 3:
                    block = np.asfortranarray(block)
                actions = [[int(x) for x in stub_rng.integers(0, 32, size=k)] for k in range(max_steps + 1)]
                return block, actions
            kwargs = dict(number_of_players=3 + case % 2, run_steps_limit=steps, sampling_repetitions=sampling,
                          eval_repetitions=evals, game_generator="factory_fixed", seed=case, func="best",
                          parallel_environments=1 + case % 3, unique_name=f"u{case}")
            results.append(("stub", (steps, sampling, evals, variant), run(kwargs, stub=stub), canon(calls)))

    # ---- 2. the real search: every generator, gap function and bound of the registries, several seeds
    generators = sorted(GENERATORS)
    gaps = sorted(GAP_FUNCTIONS)
    bounds = sorted(BOUNDS)
    case = 0
    for gi, generator in enumerate(generators):
        for seed in (0, 1):
            case += 1
            kwargs = dict(number_of_players=3, run_steps_limit=(case % 4) + 1, sampling_repetitions=1 + case % 3,
                          eval_repetitions=1 + (case // 2) % 3, game_generator=generator, seed=seed + 10 * gi,
                          gap_function=gaps[case % len(gaps)], game_class=bounds[case % len(bounds)], func="best",
                          parallel_environments=1, unique_name=f"g{case}")
            results.append(("real-generators", (generator, seed), run(kwargs)))
    for gap, bound, seed in itertools.product(gaps, bounds, range(4)):
        case += 1
        kwargs = dict(number_of_players=3 + (seed == 3), run_steps_limit=[4, 2, 0, 2][seed], sampling_repetitions=1 + seed % 2,
                      eval_repetitions=[3, 2, 4, 2][seed], game_generator=["factory", "noisy_factory", "graph", "factory_cheerleader"][seed],
                      seed=1000 + case, gap_function=gap, game_class=bound, func="best", parallel_environments=1,
                      unique_name=f"b{case}")
        results.append(("real-gap-bound", (gap, bound, seed), run(kwargs)))
    # degenerate arguments: nothing to evaluate, nothing to sample
    for evals, sampling, steps in [(0, 1, 2), (0, 0, 0), (1, 0, 2), (2, 1, 0), (1, 1, -1), (-1, 1, 1)]:
        kwargs = dict(number_of_players=3, run_steps_limit=steps, sampling_repetitions=sampling, eval_repetitions=evals,
                      game_generator="factory", seed=5, func="best", parallel_environments=1, unique_name="d")
        results.append(("degenerate", (evals, sampling, steps), run(kwargs)))

    # ---- 3. through the real savers: the bytes of data.json and what is read back
    for k in range(24):
        kwargs = dict(number_of_players=3 + (k % 6 == 5), run_steps_limit=1 + k % 3, sampling_repetitions=1 + k % 2,
                      eval_repetitions=1 + k % 4, game_generator=["factory", "noisy_factory_fixed", "graph_beta_2_3"][k % 3],
                      seed=k, func="best_states", parallel_environments=1, unique_name=f"run{k % 5}",
                      model_dir=f"models_{k % 4}")
        results.append(("real-save", k, run(kwargs, real_savers=True)))
        path = Path(kwargs["model_dir"]) / "data.json"
        results.append(("real-readback", k, attempt(
            lambda: [(key, o.data, o.actions, sorted(vars(o.parsed_args))) for key, o in save_mod.get_outputs_from_file(path).items()])))

    with open(out_file, "wb") as f:
        pickle.dump(results, f)


# --------------------------------------------------------------------------------------------------------------------
# driver
# --------------------------------------------------------------------------------------------------------------------
def export_original(target: Path) -> None:
    """Write the original (HEAD) package source below `target`."""
    blob = subprocess.run(["git", "-C", str(WORKTREE), "archive", "--format=tar", "HEAD", "incomplete_cooperative"],
                          check=True, capture_output=True).stdout
    with tarfile.open(fileobj=io.BytesIO(blob)) as tar:
        tar.extractall(target)


def main() -> int:
    with tempfile.TemporaryDirectory(prefix="equiv3_orig_") as tmp:
        original_root = Path(tmp) / "original"
        original_root.mkdir()
        export_original(original_root)
        outputs = []
        for label, root in (("original", original_root), ("refactored", WORKTREE)):
            out_file = Path(tmp) / f"{label}.pkl"
            env = dict(os.environ, OMP_NUM_THREADS="1", MKL_NUM_THREADS="1", MPLBACKEND="Agg", PYTHONHASHSEED="0",
                       PYTHONWARNINGS="ignore")
            env.pop("PYTHONPATH", None)
            proc = subprocess.run([PYTHON, __file__, "--worker", str(root), str(out_file)], env=env, cwd=str(WORKTREE))
            if proc.returncode != 0:
                print(f"DIFFERENT: worker for {label} failed with code {proc.returncode}")
                return 1
            with out_file.open("rb") as f:
                outputs.append(pickle.load(f))
        original, refactored = outputs
        changed = subprocess.run(["git", "-C", str(WORKTREE), "diff", "--stat"], capture_output=True, text=True).stdout
        if not changed.strip():
            print("warning: worktree has no changes - comparing the original with itself", file=sys.stderr)
        if len(original) != len(refactored):
            print(f"DIFFERENT: {len(original)} results vs {len(refactored)}")
            return 1
        for a, b in zip(original, refactored):
            if a != b:
                print("DIFFERENT")
                print("original:  ", repr(a)[:3000])
                print("refactored:", repr(b)[:3000])
                return 1
        summary: dict = {}
        for item in original:
            first = item[2][0] if isinstance(item[2], tuple) and item[2] else None
            if isinstance(first, tuple) and first and first[0] in ("ok", "raised"):
                first = first[0] if first[0] == "ok" else f"raised {first[1]}"
            outcome = first if isinstance(first, str) and first.startswith(("ok", "raised")) else "value"
            summary.setdefault(item[0], {}).setdefault(outcome, 0)
            summary[item[0]][outcome] += 1
        print(f"compared {len(original)} results:", summary)
        print("EQUIVALENT")
        return 0


if __name__ == "__main__":
    if len(sys.argv) == 4 and sys.argv[1] == "--worker":
        worker(sys.argv[2], sys.argv[3])
    else:
        sys.exit(main())
