"""Differential test of refactoring 1 (`Output.metadata` / `Output.json` / `Output.from_json` in run/save.py).

Run with cwd=/tmp/wt12/W10.  The ORIGINAL package is exported from git (`git archive HEAD incomplete_cooperative`) into a
temporary directory; the same scenario list is then executed in two fresh interpreters, one importing the original package
and one importing the refactored worktree.  Every scenario is reduced to a canonical picklable value (array dtype / shape /
raw bytes, file bytes, exception type and message, state of the mutated inputs) and the two lists are compared exactly.
"""
from __future__ import annotations

import io
import os
import pickle
import subprocess
import sys
import tarfile
import tempfile
from pathlib import Path

WORKTREE = Path("/tmp/wt12/W10")
PYTHON = "/venv/bin/python"


# --------------------------------------------------------------------------------------------------------------------
# worker: runs inside a fresh interpreter with `root` first on sys.path
# --------------------------------------------------------------------------------------------------------------------
def canon(obj):
    """Reduce a value to something picklable whose equality is exact (bit for bit for arrays and floats)."""
    import argparse
    import numpy as np
    if isinstance(obj, np.ndarray):
        if obj.dtype == object:
            return ("ndarray-object", obj.shape, canon(obj.tolist()))
        return ("ndarray", str(obj.dtype), obj.shape, np.ascontiguousarray(obj).tobytes(),
                obj.flags["C_CONTIGUOUS"], obj.flags["WRITEABLE"])
    if isinstance(obj, np.generic):
        return ("npscalar", str(obj.dtype), obj.tobytes())
    if isinstance(obj, float):
        import struct
        return ("float", struct.pack("<d", obj))
    if isinstance(obj, (bool, int, str, bytes, type(None))):
        return (type(obj).__name__, obj)
    if isinstance(obj, dict):
        return ("dict", type(obj).__name__, [(canon(k), canon(v)) for k, v in obj.items()])  # order matters
    if isinstance(obj, (list, tuple)):
        return (type(obj).__name__, [canon(x) for x in obj])
    if isinstance(obj, argparse.Namespace):
        return ("Namespace", canon(vars(obj)))
    if isinstance(obj, BaseException):
        return ("exception", type(obj).__name__, str(obj))
    return ("repr", type(obj).__name__, repr(obj))


def attempt(fn):
    """Call `fn` and return its canonical result or its canonical exception."""
    try:
        return ("ok", canon(fn()))
    except BaseException as e:  # noqa: B902 - KeyboardInterrupt etc. are part of the comparison
        return ("raised", type(e).__name__, str(e))


def tree_snapshot(root: Path):
    """All files below `root` with their bytes, sorted."""
    return sorted((str(p.relative_to(root)), p.read_bytes() if p.is_file() else None) for p in root.rglob("*"))


def worker(root: str, out_file: str) -> None:
    sys.path.insert(0, root)
    import copy
    import json
    from argparse import Namespace
    from functools import partial

    import numpy as np

    import incomplete_cooperative
    assert Path(incomplete_cooperative.__file__).resolve().is_relative_to(Path(root).resolve()), incomplete_cooperative.__file__
    from incomplete_cooperative.run import save as save_mod
    from incomplete_cooperative.run.eval import eval_func
    from incomplete_cooperative.run.greedy import greedy_func
    from incomplete_cooperative.run.learn import learn_func
    from incomplete_cooperative.run.solve import solve_func
    from incomplete_cooperative.run.best_states import best_states_func
    assert Path(save_mod.__file__).resolve().is_relative_to(Path(root).resolve())
    Output = save_mod.Output

    scratch = Path(tempfile.mkdtemp(prefix="equiv1_"))
    os.chdir(scratch)  # relative paths only: identical messages / metadata in both interpreters
    results = []

    class Weird:
        def __repr__(self):
            return "<Weird eval thing>"

    class ReprRaises:
        def __repr__(self):
            raise RuntimeError("no repr")

    def some_function():  # repr contains neither "eval" nor an address-free text -> strip addresses below
        return None

    funcs = [eval_func, solve_func, greedy_func, learn_func, best_states_func,
             partial(greedy_func, randomize=True), partial(eval_func), "eval", "learn", "evaluation", "EVAL",
             None, 17, Weird(), ReprRaises(), ["eval"], {"eval": 1}, ("x", "eval")]

    rng = np.random.default_rng(20240319)

    def random_arrays(i):
        steps = int(rng.integers(0, 6))
        reps = int(rng.integers(0, 5))
        kind = i % 6
        if kind == 0:
            data = rng.random((steps + 1, reps))
        elif kind == 1:
            data = np.full((steps + 1, reps), np.nan)
            data[: steps // 2 + 1] = rng.normal(size=(steps // 2 + 1, reps))
        elif kind == 2:
            data = -np.ones((steps + 1, reps))
        elif kind == 3:
            data = rng.integers(-5, 5, size=(steps + 1, reps))  # int data
        elif kind == 4:
            data = rng.random((steps + 1, reps)).astype(np.float32)
        else:
            with np.errstate(all="ignore"):
                data = rng.random((steps + 1, reps)) * np.array([np.inf, 1e-320, -np.inf, 0.0][:reps])
        akind = (i // 6) % 5
        if akind == 0:
            actions = rng.integers(0, 32, size=(steps, reps)).astype(float)
            actions[rng.random(actions.shape) < 0.3] = np.nan
        elif akind == 1:
            actions = np.full((steps + 1, reps, steps), np.nan)  # best_states layout
            for a in range(steps + 1):
                for b in range(reps):
                    actions[a, b, :a] = rng.integers(0, 32, size=a)
        elif akind == 2:
            actions = rng.integers(0, 32, size=(steps, 1))  # greedy layout (ints)
        elif akind == 3:
            actions = np.reshape(np.array([]), (0, 1))
        else:
            actions = rng.integers(0, 2**40, size=(steps, reps), dtype=np.int64)
        return data, actions

    def namespace(i):
        extras = [
            {},
            {"foo": "bar", "baz": 42},
            {"model_dir": Path("some/dir"), "seed": 3, "gamma": 0.5, "nan": float("nan")},
            {"run_type": "already there", "number_of_players": 4},
            {"nested": {"a": [1, 2, (3, 4)]}, "none": None, "flag": True},
            {"obj": Weird(), "tuple": (1, 2)},
        ][i % 6]
        func = funcs[i % len(funcs)]
        order = i % 3
        if order == 0:
            d = {"func": func, **extras}
        elif order == 1:
            d = {**extras, "func": func}
        else:
            items = list(extras.items())
            d = dict(items[:1] + [("func", func)] + items[1:])
        if i % 23 == 22:
            d.pop("func")  # KeyError('func')
        return Namespace(**d)

    import re
    addr = re.compile(r"0x[0-9a-fA-F]+")

    def strip(x):
        """Remove memory addresses (reprs of functions) from strings of a canonical value."""
        if isinstance(x, str):
            return addr.sub("0x?", x)
        if isinstance(x, tuple):
            return tuple(strip(y) for y in x)
        if isinstance(x, list):
            return [strip(y) for y in x]
        return x

    n_cases = 420
    for i in range(n_cases):
        data, actions = random_arrays(i)
        ns = namespace(i)
        before = copy.copy(vars(ns))
        out = Output(data, actions, ns)
        results.append(("metadata", i, strip(attempt(lambda: out.metadata))))
        results.append(("metadata-twice-distinct", i, attempt(lambda: out.metadata is not out.metadata)))
        results.append(("json", i, strip(attempt(lambda: out.json))))
        results.append(("json-key-order", i, attempt(lambda: list(out.json))))
        results.append(("ns-unchanged", i, list(vars(ns)) == list(before) and all(vars(ns)[k] is before[k] for k in before)))
        results.append(("data_list", i, attempt(lambda: out.data_list)))
        results.append(("actions_list", i, attempt(lambda: out.actions_list)))
        results.append(("avg", i, attempt(lambda: (out.avg_data, out.data_avg_final))))

        # module-level metadata helper must agree with the property when it exists (refactored tree only: compared via property)
        # the JSON text itself, byte for byte
        results.append(("dumps", i, strip(attempt(lambda: json.dumps(out.json, default=save_mod.json_serializer)))))

        # save_json into a file with earlier entries, then read back through every reader
        path = Path(f"case_{i}") / "data.json"
        path.parent.mkdir()
        if i % 4:
            path.write_text(json.dumps({"earlier": {"data": [[1.0]], "actions": [[float("nan")]],
                                                    "metadata": {"run_type": "learn", "x": 1}}}))
        name = ["run", "earlier", "2024-03-19T10:11:12.123456", ""][i % 4] if i % 7 else "earlier"
        results.append(("save_json", i, strip(attempt(lambda: save_mod.save_json(path, name, out)))))
        results.append(("files", i, strip(canon(tree_snapshot(path.parent)))))

        def read_back():
            o = Output.from_file(path, name)
            return (o.data, o.actions, o.parsed_args, o.metadata, o.json)
        results.append(("from_file", i, strip(attempt(read_back))))

        def read_all():
            outs = save_mod.get_outputs_from_file(path)
            return [(k, v.data, v.actions, v.parsed_args, v.metadata) for k, v in outs.items()]
        results.append(("get_outputs_from_file", i, strip(attempt(read_all))))

        # from_json on a fresh dict: result and the mutation of the argument
        def from_json_and_argument():
            raw = json.loads(path.read_text())[name]
            inner = raw["metadata"]
            o = Output.from_json(raw)
            return (o.data, o.actions, o.parsed_args, sorted(raw.keys()), raw["parsed_args"] is o.parsed_args,
                    inner, raw["data"] is o.data, raw["actions"] is o.actions)
        results.append(("from_json", i, strip(attempt(from_json_and_argument))))

    # malformed records: same exception, same partial mutation of the argument
    malformed = [
        {},
        {"metadata": {}},
        {"metadata": {"run_type": "eval"}},
        {"metadata": {"run_type": "eval"}, "data": [[1.0]]},
        {"metadata": {"run_type": "eval"}, "data": [[1.0]], "actions": [[2]], "extra": 1},
        {"metadata": [], "data": [[1.0]], "actions": [[2]]},
        {"metadata": "run_type", "data": [[1.0]], "actions": [[2]]},
        {"metadata": None, "data": [[1.0]], "actions": [[2]]},
        {"metadata": {"run_type": "eval", 3: 4}, "data": [[1.0]], "actions": [[2]]},
        {"metadata": {"run_type": "eval", "func": "old"}, "data": [[1.0], [2.0, 3.0]], "actions": [[2]]},
        {"metadata": {"run_type": "eval"}, "data": [["x"]], "actions": [[2]]},
        {"metadata": {"run_type": "eval"}, "data": None, "actions": None},
        {"metadata": {"run_type": ["eval"]}, "data": [], "actions": []},
        {"metadata": {"run_type": "learn", "parsed_args": 1}, "data": [[1.0]], "actions": [[None]]},
    ]
    for j, raw in enumerate(malformed):
        arg = copy.deepcopy(raw)
        res = attempt(lambda: (lambda o: (o.data, o.actions, o.parsed_args))(Output.from_json(arg)))
        results.append(("malformed", j, strip(res), strip(canon(arg))))

    # the whole `save` path with the real savers (plots included) for a few runs
    for i in range(12):
        data, actions = random_arrays(6 * i)  # float data, float actions with NaN padding
        if data.shape[0] == 0 or data.shape[1] == 0 or actions.size == 0:
            continue
        out = Output(data, actions, namespace(i))
        model_dir = Path(f"full_{i % 3}")
        results.append(("save", i, strip(attempt(lambda: save_mod.save(model_dir, f"run{i % 5}", out)))))
        results.append(("save-json-file", i, strip(canon((model_dir / "data.json").read_bytes()
                                                         if (model_dir / "data.json").exists() else None))))
        results.append(("save-names", i, sorted(str(p.relative_to(model_dir)) for p in model_dir.rglob("*"))))

    with open(out_file, "wb") as f:
        pickle.dump(results, f)


# --------------------------------------------------------------------------------------------------------------------
# driver
# --------------------------------------------------------------------------------------------------------------------
def export_original(target: Path) -> None:
    """Write the original (HEAD) package source below `target`."""
    blob = subprocess.run(["git", "-C", str(WORKTREE), "archive", "--format=tar", "HEAD", "incomplete_cooperative"],
                          check=True, capture_output=True).stdout
    with tarfile.open(fileobj=io.BytesIO(blob)) as tar:
        tar.extractall(target)


def main() -> int:
    with tempfile.TemporaryDirectory(prefix="equiv1_orig_") as tmp:
        original_root = Path(tmp) / "original"
        original_root.mkdir()
        export_original(original_root)
        outputs = []
        for label, root in (("original", original_root), ("refactored", WORKTREE)):
            out_file = Path(tmp) / f"{label}.pkl"
            env = dict(os.environ, OMP_NUM_THREADS="1", MKL_NUM_THREADS="1", MPLBACKEND="Agg", PYTHONHASHSEED="0",
                       PYTHONWARNINGS="ignore")
            env.pop("PYTHONPATH", None)
            proc = subprocess.run([PYTHON, __file__, "--worker", str(root), str(out_file)], env=env, cwd=str(WORKTREE))
            if proc.returncode != 0:
                print(f"DIFFERENT: worker for {label} failed with code {proc.returncode}")
                return 1
            with out_file.open("rb") as f:
                outputs.append(pickle.load(f))
        original, refactored = outputs
        changed = subprocess.run(["git", "-C", str(WORKTREE), "diff", "--stat"], capture_output=True, text=True).stdout
        if not changed.strip():
            print("warning: worktree has no changes - comparing the original with itself", file=sys.stderr)
        if len(original) != len(refactored):
            print(f"DIFFERENT: {len(original)} results vs {len(refactored)}")
            return 1
        for a, b in zip(original, refactored):
            if a != b:
                print("DIFFERENT")
                print("original:  ", repr(a)[:3000])
                print("refactored:", repr(b)[:3000])
                return 1
        summary: dict = {}
        for item in original:
            outcome = item[2][0] if isinstance(item[2], tuple) and item[2] and item[2][0] in ("ok", "raised") else "value"
            summary.setdefault(item[0], {}).setdefault(outcome, 0)
            summary[item[0]][outcome] += 1
        print(f"compared {len(original)} results:", summary)
        print("EQUIVALENT")
        return 0


if __name__ == "__main__":
    if len(sys.argv) == 4 and sys.argv[1] == "--worker":
        worker(sys.argv[2], sys.argv[3])
    else:
        sys.exit(main())
