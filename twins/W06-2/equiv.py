"""Differential test of refactoring 2: coalition_ids.players / sub_coalitions (index arrays from np.nonzero instead of a
boolean mask), Coalition.__len__ (body moved to the module-level `coalition_size`) and Coalition.__sub__ (one return).

Run with cwd=/tmp/wt12/W06.  Loads the ORIGINAL package from git HEAD under another package name and the refactored
package from the worktree and compares results exactly (bytes, dtype, shape, flags, Python types, exceptions).
"""
import copy
import importlib
import os
import re
import subprocess
import sys
import tempfile
import warnings

import numpy as np

WT = os.getcwd()
ORIG_NAME = "icg_orig_w06_2"


def load_original(name: str):
    """Write the package as of HEAD into a temporary directory under the package name `name` and make it importable."""
    tmp = tempfile.mkdtemp(prefix="w06_orig_")
    files = subprocess.check_output(["git", "-C", WT, "ls-tree", "-r", "--name-only", "HEAD", "incomplete_cooperative"],
                                    text=True).split()
    for path in files:
        if not path.endswith(".py") or "/tests/" in path:
            continue
        source = subprocess.check_output(["git", "-C", WT, "show", f"HEAD:{path}"], text=True)
        source = re.sub(r"^(\s*(?:from|import)\s+)incomplete_cooperative\b", r"\g<1>" + name, source, flags=re.M)
        target = os.path.join(tmp, name, os.path.relpath(path, "incomplete_cooperative"))
        os.makedirs(os.path.dirname(target), exist_ok=True)
        with open(target, "w") as file:
            file.write(source)
    sys.path.insert(0, tmp)


def canon(value, depth=0):
    """Turn a result into something comparable exactly and independent of the package name."""
    if isinstance(value, np.ndarray):
        return ("ndarray", str(value.dtype), value.shape, value.tobytes(), value.flags["C_CONTIGUOUS"],
                value.flags["OWNDATA"], value.flags["WRITEABLE"])
    if isinstance(value, np.generic):
        return ("npscalar", type(value).__name__, value.tobytes())
    if type(value).__name__ == "Coalition":
        return ("Coalition", canon(value.id))
    if isinstance(value, (list, tuple)):
        return (type(value).__name__, tuple(canon(v) for v in value))
    if isinstance(value, (map, filter)) or hasattr(value, "__next__"):
        return ("iterator", type(value).__name__, tuple(canon(v) for v in value))
    return (type(value).__name__, repr(value))


def call(fn, *args):
    """Call and canonicalise, exceptions included."""
    with warnings.catch_warnings():
        warnings.simplefilter("ignore")
        try:
            return ("ok", canon(fn(*args)))
        except BaseException as error:  # noqa
            return ("raised", type(error).__name__, str(error).replace(ORIG_NAME, "PKG").replace(
                "incomplete_cooperative", "PKG"))


class Both:
    """Evaluate the same expression on both packages and compare."""

    def __init__(self, orig_modules, new_modules):
        self.orig, self.new, self.cases = orig_modules, new_modules, 0

    def check(self, label, expression, *args):
        """`expression(modules, *args)` is evaluated for both; returns False and reports on a difference."""
        # fresh copies of the arguments for each side: an ndarray used as a coalition id is shifted in place by both versions
        args_orig, args_new = copy.deepcopy(args), copy.deepcopy(args)
        res_orig = call(expression, self.orig, *args_orig) + (canon(list(args_orig)),)
        res_new = call(expression, self.new, *args_new) + (canon(list(args_new)),)
        self.cases += 1
        if res_orig != res_new:
            print("DIFFERENT:", label, "args =", args)
            print(" original:  ", res_orig)
            print(" refactored:", res_new)
            raise SystemExit(1)


class Modules:
    def __init__(self, package):
        self.ids = importlib.import_module(package + ".coalition_ids")
        self.coal = importlib.import_module(package + ".coalitions")
        self.props = importlib.import_module(package + ".game_properties")
        self.bounds = importlib.import_module(package + ".bounds")
        self.game = importlib.import_module(package + ".game")
        self.gens = importlib.import_module(package + ".generators")


def main() -> int:
    load_original(ORIG_NAME)
    sys.path.insert(0, WT)
    orig, new = Modules(ORIG_NAME), Modules("incomplete_cooperative")
    assert os.path.realpath(new.coal.__file__).startswith(os.path.realpath(WT)), new.coal.__file__
    assert ORIG_NAME in orig.coal.__file__ and ORIG_NAME in orig.ids.__file__
    both = Both(orig, new)

    # --- id-array implementation: every coalition of every player count, three spellings of the id -----------------
    id_functions = ["players", "get_size", "sub_coalitions", "super_coalitions"]
    for number_of_players in range(0, 8):
        for coalition in range(2**number_of_players):
            for convert in (int, np.int32, np.int64):
                for name in id_functions:
                    both.check(f"coalition_ids.{name}", lambda m, nm, c, n: getattr(m.ids, nm)(c, n),
                               name, convert(coalition), number_of_players)
    # player count larger than needed, numpy player counts
    for number_of_players in (np.int64(4), np.int32(5), 9, 12):
        for coalition in (0, 1, 5, 6, 11, 15):
            for name in id_functions:
                both.check(f"coalition_ids.{name}", lambda m, nm, c, n: getattr(m.ids, nm)(c, n),
                           name, np.int32(coalition), number_of_players)
    # inputs outside the contract: same exceptions (or same results)
    odd_coalitions = [8, 16, -1, -3, 2.0, np.float64(3), None, "a", np.array(3), np.array([3]), np.array([[3]]),
                      np.array([1, 2]), np.array([[1, 2, 4]]), np.array([], dtype=int), True, np.uint8(5), np.int8(-2),
                      2**40, np.array([[1], [2]])]
    for coalition in odd_coalitions:
        for number_of_players in (0, 1, 3, 3.0, np.float64(2), None, -1, "3", np.array(3), np.array([3]), True):
            for name in id_functions:
                both.check(f"coalition_ids.{name} (odd input)", lambda m, nm, c, n: getattr(m.ids, nm)(c, n),
                           name, coalition, number_of_players)

    # --- object implementation --------------------------------------------------------------------------------------
    for number_of_players in range(0, 6):
        for a in range(2**number_of_players):
            both.check("len(Coalition)", lambda m, x: len(m.coal.Coalition(x)), a)
            both.check("Coalition.__len__", lambda m, x: m.coal.Coalition(x).__len__(), a)
            both.check("inverted", lambda m, x, n: m.coal.Coalition(x).inverted(n), a, number_of_players)
            both.check("get_super_coalitions", lambda m, x, n: m.coal.get_super_coalitions(m.coal.Coalition(x), n),
                       a, number_of_players)
            both.check("get_sub_coalitions", lambda m, x: m.coal.get_sub_coalitions(m.coal.Coalition(x)), a)
            for player in range(-1, number_of_players + 2):
                both.check("Coalition - player", lambda m, x, p: m.coal.Coalition(x) - p, a, player)
            for b in range(2**number_of_players):
                both.check("Coalition - Coalition", lambda m, x, y: m.coal.Coalition(x) - m.coal.Coalition(y), a, b)
    # numpy / big / odd ids and operands
    odd_ids = [np.int32(5), np.int64(6), np.uint8(7), 2**70 + 5, True, 0, np.int32(0), 2.0, None, "a", np.array(5),
               np.array([5, 3])]
    odd_operands = [True, False, np.int64(1), np.int32(0), 1.0, None, "x", [1], (0,), 2**7, -2, np.array(1)]
    for coalition_id in odd_ids:
        both.check("len(Coalition(odd id))", lambda m, x: len(m.coal.Coalition(x)), coalition_id)
        both.check("Coalition(odd id).__len__()", lambda m, x: m.coal.Coalition(x).__len__(), coalition_id)
        for operand in odd_operands:
            both.check("Coalition(odd id) - odd operand", lambda m, x, y: m.coal.Coalition(x) - y, coalition_id, operand)
        for other_id in odd_ids:
            both.check("Coalition(odd id) - Coalition(odd id)",
                       lambda m, x, y: m.coal.Coalition(x) - m.coal.Coalition(y), coalition_id, other_id)
    # a subclass of both Coalition and int takes the Coalition branch in both versions
    def dual(m):
        cls = type("Dual", (m.coal.Coalition, int), {})
        obj = int.__new__(cls, 1)
        obj.id = 6
        return m.coal.Coalition(7) - obj
    both.check("Coalition - (Coalition and int)", dual)

    # --- consumers of the two modules: predicates, bounds, generators ------------------------------------------------
    def predicates(m, number_of_players, seed, kind):
        rng = np.random.default_rng(seed)
        game = m.game.IncompleteCooperativeGame(number_of_players)
        values = rng.integers(-3, 4, 2**number_of_players).astype(float) if kind == "int" else rng.normal(size=2**number_of_players)
        if kind == "sorted":
            values = -np.sort(np.abs(values)) * np.array([len(m.coal.Coalition(c)) for c in range(2**number_of_players)])
        values[0] = 0
        game.set_values(values)
        return [m.props.is_superadditive(game), m.props.is_monotone_decreasing(game), m.props.is_sam(game)]

    for number_of_players in range(1, 6):
        for seed in range(8):
            for kind in ("int", "normal", "sorted"):
                both.check("game_properties", predicates, number_of_players, seed, kind)

    def bounds(m, number_of_players, seed, name):
        rng = np.random.default_rng(seed)
        full = m.gens.GENERATORS["noisy_factory"](number_of_players, rng)
        game = m.game.IncompleteCooperativeGame(number_of_players, m.bounds.BOUNDS[name])
        known = [c for c in m.coal.all_coalitions(number_of_players)
                 if len(c) <= 1 or len(c) == number_of_players or rng.random() < 0.3]
        game.set_known_values(full.get_values(known), known)
        game.compute_bounds()
        return [game.get_lower_bounds(), game.get_upper_bounds()]

    for number_of_players in range(3, 6):
        for seed in range(5):
            for name in ("superadditive", "superadditive_cached"):
                both.check("bounds", bounds, number_of_players, seed, name)

    def generator(m, key, number_of_players, seed):
        return m.gens.GENERATORS[key](number_of_players, np.random.default_rng(seed)).get_values()

    for key in ("factory", "factory_cheerleader", "xs", "xs3", "oxs", "k_budget_generator", "covg_fn_generator", "xos",
                "graph_cycle", "noisy_factory_square"):
        for number_of_players in (3, 4, 5):
            for seed in (0, 1):
                both.check("generator", generator, key, number_of_players, seed)

    print(f"{both.cases} cases compared")
    print("EQUIVALENT")
    return 0


if __name__ == "__main__":
    sys.exit(main())
