"""Differential test for refactoring 3 (game.py: the `coalitions is None` guards of set_values and _filter_out_coalitions restructured).

Run with cwd=/tmp/wt12/W09.  Loads the ORIGINAL package from `git show HEAD:<path>` into a temporary directory and the
refactored package (the dirty worktree, or HEAD + patch_3.diff when the worktree is clean) into another one, runs both
on the same inputs and compares every result bit for bit.
"""
import os
import shutil
import subprocess
import sys
import tempfile
import warnings

os.environ.setdefault("OMP_NUM_THREADS", "1")
import numpy as np  # noqa: E402

K = 3
WT = os.getcwd()
OUT = os.path.dirname(os.path.abspath(__file__))
PKG = "incomplete_cooperative"
CHANGED = ["game"]
NAMES = ["coalitions", "game", "graph_game", "normalize", "generators", "game_properties", "bounds",
         "exploitability", "icg_gym"]


# ----------------------------------------------------------------------------------------------- harness
def export_head(dst: str) -> None:
    files = subprocess.check_output(["git", "-C", WT, "ls-tree", "-r", "--name-only", "HEAD", PKG], text=True)
    for f in files.splitlines():
        if not f or "/tests/" in f:
            continue
        data = subprocess.check_output(["git", "-C", WT, "show", f"HEAD:{f}"])
        p = os.path.join(dst, f)
        os.makedirs(os.path.dirname(p), exist_ok=True)
        with open(p, "wb") as fh:
            fh.write(data)


def make_refactored(dst: str) -> str:
    dirty = subprocess.run(["git", "-C", WT, "diff", "--quiet"]).returncode != 0
    if dirty:
        shutil.copytree(os.path.join(WT, PKG), os.path.join(dst, PKG),
                        ignore=shutil.ignore_patterns("tests", "__pycache__"))
        return "worktree"
    patch = os.path.join(OUT, f"patch_{K}.diff")
    if not os.path.exists(patch) or os.path.getsize(patch) == 0:
        raise SystemExit("worktree is clean and there is no patch to apply: nothing to compare")
    export_head(dst)
    subprocess.check_call(["git", "apply", "--exclude=*/tests/*", patch], cwd=dst)
    return "HEAD + " + patch


def load(root: str, names: list[str]) -> dict:
    for m in [m for m in sys.modules if m == PKG or m.startswith(PKG + ".")]:
        del sys.modules[m]
    sys.path.insert(0, root)
    try:
        import importlib
        ns = {}
        for n in names:
            mod = importlib.import_module(f"{PKG}.{n}")
            assert os.path.realpath(mod.__file__).startswith(os.path.realpath(root)), mod.__file__
            ns[n] = mod
        return ns
    finally:
        sys.path.remove(root)


def canon(x):
    """Canonical, bit-exact, comparable form of a result."""
    if isinstance(x, np.ndarray):
        return ("nd", str(x.dtype), x.shape, np.ascontiguousarray(x).tobytes())
    if isinstance(x, np.generic):
        return ("np", type(x).__name__, x.tobytes())
    if isinstance(x, (list, tuple)):
        return (type(x).__name__, tuple(canon(y) for y in x))
    if isinstance(x, dict):
        return ("dict", tuple((k, canon(v)) for k, v in x.items()))
    return (type(x).__name__, repr(x))


def attempt(fn, *a, **kw):
    try:
        return ("ok", canon(fn(*a, **kw)))
    except Exception as e:  # noqa
        return ("exc", type(e).__name__, str(e))


# ----------------------------------------------------------------------------------------------- the game bank
def make_bank(ns) -> list:
    """Raw descriptions of games: ('icg', name, n, table of (known, lower, upper)) or ('graph', name, matrix)."""
    gens = ns["generators"].GENERATORS
    ICG, Graph = ns["game"].IncompleteCooperativeGame, ns["graph_game"].GraphCooperativeGame
    bank, skipped = [], {}
    for name, gen in gens.items():
        for n in (3, 4, 5, 6):
            for seed in (0, 1):
                try:
                    g = gen(n, np.random.default_rng(seed + 7 * n))
                except Exception as e:  # noqa  (e.g. `convex` needs pyfmtools)
                    skipped[name] = type(e).__name__
                    continue
                if isinstance(g, Graph):
                    bank.append(("graph", f"{name}/n{n}/s{seed}", np.array(g._graph_matrix)))
                elif isinstance(g, ICG):
                    bank.append(("icg", f"{name}/n{n}/s{seed}", n, np.array(g._values)))
                else:
                    raise AssertionError(type(g))
    rng = np.random.default_rng(2024)

    def full(n, values):
        t = np.zeros((2 ** n, 3))
        t[:, 0] = 1
        t[:, 1] = t[:, 2] = values
        return t

    sizes = np.array([bin(i).count("1") for i in range(2 ** 7)])
    for n in (2, 3, 4, 5, 6):
        m = 2 ** n
        for r in range(6):
            w = rng.random(n) * 10.0 ** rng.integers(-3, 4)
            additive = np.array([sum(w[j] for j in range(n) if i >> j & 1) for i in range(m)])
            v = rng.random(m)
            v[0] = 0
            bank += [
                ("icg", f"additive/n{n}/{r}", n, full(n, additive)),
                ("icg", f"additive_int/n{n}/{r}", n, full(n, np.round(additive * 100))),
                ("icg", f"almost_additive/n{n}/{r}", n, full(n, additive + 1e-13 * v)),
                ("icg", f"random/n{n}/{r}", n, full(n, v)),
                ("icg", f"signed/n{n}/{r}", n, full(n, (v - 0.5) * 1e6)),
                ("icg", f"square/n{n}/{r}", n, full(n, (sizes[:m] ** 2) * (r + 1.0))),
                ("icg", f"convexish/n{n}/{r}", n, full(n, additive + sizes[:m] ** (1 + r / 2))),
                ("graph", f"rand/n{n}/{r}", rng.random((n, n))),
                ("graph", f"int/n{n}/{r}", rng.integers(-3, 4, (n, n))),
                ("graph", f"f32/n{n}/{r}", rng.random((n, n)).astype(np.float32)),
            ]
            t = full(n, v)
            unknown = rng.integers(0, m, 2)
            t[unknown] = 0
            bank.append(("icg", f"incomplete/n{n}/{r}", n, t))
            t = full(n, v)
            t[rng.integers(1, m)] = [1, np.nan, np.nan]
            bank.append(("icg", f"nan/n{n}/{r}", n, t))
            t = full(n, v)
            t[m - 1, 1:] = np.inf
            bank.append(("icg", f"infgrand/n{n}/{r}", n, t))
        bank += [("icg", f"zero/n{n}", n, full(n, np.zeros(m))),
                 ("icg", f"const/n{n}", n, full(n, np.ones(m))),
                 ("graph", f"zero/n{n}", np.zeros((n, n))),
                 ("graph", f"cancel/n{n}", np.triu(np.ones((n, n)), 1) * np.resize([1, -1], (n, n)))]
    return bank, skipped


def build(ns, item, cls_icg=None, cls_graph=None):
    if item[0] == "graph":
        return (cls_graph or ns["graph_game"].GraphCooperativeGame)(np.array(item[2]))
    g = (cls_icg or ns["game"].IncompleteCooperativeGame)(item[2])
    g._values = np.array(item[3], dtype=g._values.dtype)
    return g


def state(g):
    return canon(g._graph_matrix) if hasattr(g, "_graph_matrix") else canon(g._values)


# ----------------------------------------------------------------------------------------------- cases
def run_cases(ns, bank) -> list:
    norm, coal = ns["normalize"], ns["coalitions"]
    Coalition, all_coalitions = coal.Coalition, coal.all_coalitions
    ICG = ns["game"].IncompleteCooperativeGame
    compute_bounds = ns["bounds"].compute_bounds_superadditive
    compute_exploitability = ns["exploitability"].compute_exploitability
    ICG_Gym = ns["icg_gym"].ICG_Gym
    out = []

    def rec(tag, value):
        out.append((tag, value))

    def coals(ids):
        return [Coalition(int(i)) for i in ids]

    # ---- A. the setters and getters of the table themselves
    rng = np.random.default_rng(77)
    for idx, item in enumerate(bank):
        if item[0] != "icg":
            continue
        tag = f"A:{item[1]}"
        n, m = item[2], 2 ** item[2]
        g = build(ns, item)
        ids = rng.permutation(m)[:rng.integers(0, m + 1)]
        known_ids = np.flatnonzero(item[3][:, 0] == 1)
        rec(tag + "/get_all", attempt(g.get_values))
        rec(tag + "/get_list", attempt(g.get_values, coals(ids)))
        rec(tag + "/get_gen", attempt(g.get_values, (Coalition(int(i)) for i in ids)))
        rec(tag + "/get_known_only", attempt(g.get_values, map(Coalition, known_ids.tolist())))
        rec(tag + "/get_empty", attempt(g.get_values, []))
        rec(tag + "/get_dup", attempt(g.get_values, coals(list(ids[:3]) * 2)))
        rec(tag + "/get_bad", attempt(g.get_values, coals([0, m])))
        rec(tag + "/get_alias", canon(g.get_values() is not None and np.shares_memory(g.get_values(), g._values)
                                      if bool(np.all(item[3][:, 0] == 1)) else None))
        for getter in ("get_upper_bounds", "get_lower_bounds", "get_intervals", "are_values_known", "get_known_values"):
            fn = getattr(g, getter)
            rec(f"{tag}/{getter}/all", attempt(fn))
            rec(f"{tag}/{getter}/none", attempt(fn, None))
            rec(f"{tag}/{getter}/list", attempt(fn, coals(ids)))
            rec(f"{tag}/{getter}/gen", attempt(fn, (Coalition(int(i)) for i in ids)))
            rec(f"{tag}/{getter}/empty", attempt(fn, []))
            rec(f"{tag}/{getter}/oob", attempt(fn, coals([1, m])))
            rec(f"{tag}/{getter}/alias", canon((bool(np.shares_memory(fn(), g._values)),
                                                bool(np.shares_memory(fn(coals(ids)), g._values)))))
        probe = np.arange(12.0).reshape(6, 2)
        rec(tag + "/filter/none_is_same", canon(g._filter_out_coalitions(probe, None) is probe))
        rec(tag + "/filter/rows", attempt(g._filter_out_coalitions, probe, coals([3, 0, 3])))
        rec(tag + "/state0", state(g))
        vals = rng.normal(size=m)
        calls = [
            ("all_array", (vals,)),
            ("all_scalar", (3.5,)),
            ("all_list", (list(range(m)),)),
            ("all_int", (np.arange(m),)),
            ("all_wrong", (np.ones(m + 1),)),
            ("all_2d", (np.ones((m, 1)),)),
            ("all_none", (vals, None)),
            ("some_list", (vals[:len(ids)], coals(ids))),
            ("some_gen", (vals[:len(ids)] * 2, (Coalition(int(i)) for i in ids))),
            ("some_map", (list(vals[:len(ids)]), map(Coalition, ids.tolist()))),
            ("some_scalar", (7, coals(ids[:1]))),
            ("some_scalar_many", (np.float64(2.5), coals(ids[:3]))),
            ("some_short", (vals[:max(len(ids) - 1, 0)], coals(ids))),
            ("some_long", (vals[:len(ids)] if len(ids) < 2 else vals[:len(ids) + 1], coals(ids))),
            ("some_empty", (np.zeros(0), [])),
            ("some_dup", (np.array([1.0, 2.0, 3.0]), coals([1, 1, 2]))),
            ("some_oob", (np.array([1.0, 2.0]), coals([1, m]))),
            ("some_nan", (np.array([np.nan, np.inf]), coals([1, 2]))),
        ]
        for k, (cname, args) in enumerate(calls):
            if (idx + k) % 3 and cname not in ("all_array", "some_list", "some_gen"):
                continue   # a rotating third of the unusual calls per game
            h = build(ns, item)
            rec(f"{tag}/set/{cname}", attempt(h.set_values, *args))
            rec(f"{tag}/set/{cname}/state", state(h))
            rec(f"{tag}/set/{cname}/get", attempt(h.get_values))
        h = build(ns, item)
        rec(tag + "/skv_self", attempt(h.set_known_values, h.get_upper_bounds(coals(known_ids[:3])), coals(known_ids[:3])))
        rec(tag + "/skv_self/state", state(h))
        h = build(ns, item)
        rec(tag + "/skv_all", attempt(h.set_known_values, iter(vals)))
        rec(tag + "/skv_all/state", state(h))
        h = build(ns, item)
        rec(tag + "/skv_gen", attempt(h.set_known_values, (h.get_upper_bound(c) for c in coals(ids)),
                                      (c for c in coals(ids))))
        rec(tag + "/skv_gen/state", state(h))
        rec(tag + "/skv_gen/known", attempt(h.get_known_values))
        rec(tag + "/skv_gen/full", canon(h.full))

    # ---- B. normalisation of every game of the bank (set_values in the additive case, get_values for the info)
    for item in bank:
        tag = f"B:{item[0]}:{item[1]}"
        g = build(ns, item)
        info = []
        rec(tag + "/normalize", attempt(lambda: info.append(norm.normalize_game(g)) or info[0]))
        rec(tag + "/normalized", state(g))
        if info:
            rec(tag + "/denormalize", attempt(norm.denormalize_game, g, info[0]))
            rec(tag + "/denormalized", state(g))

    # ---- C. the gym: reset (set_known_values -> set_values), steps, unsteps
    played = 0
    for idx, item in enumerate(bank):
        n = item[2] if item[0] == "icg" else item[2].shape[0]
        if n not in (3, 4, 5) or idx % 3:
            continue
        if item[0] == "icg" and not bool(np.all(item[3][:, 0] == 1)):
            continue
        if not np.all(np.isfinite(item[3] if item[0] == "icg" else item[2])):
            continue
        tag = f"C:{item[0]}:{item[1]}"
        rng = np.random.default_rng(idx)
        known = [Coalition(2 ** i) for i in range(n)] + coals(rng.integers(0, 2 ** n, rng.integers(0, 3)))
        made = attempt(lambda: ICG_Gym(ICG(n, compute_bounds), lambda: build(ns, item), known,
                                       compute_exploitability, None if idx % 2 else 3) and None)
        rec(tag + "/ctor", made)
        if made[0] != "ok":
            continue
        env = ICG_Gym(ICG(n, compute_bounds), lambda: build(ns, item), known, compute_exploitability,
                      None if idx % 2 else 3)
        played += 1
        for episode in range(2):
            rec(f"{tag}/e{episode}/reset", attempt(lambda: env.reset()[0]))
            rec(f"{tag}/e{episode}/table", state(env.incomplete_game))
            rec(f"{tag}/e{episode}/normalized", state(env.normalized_game))
            taken = []
            for step in range(2 ** n):
                mask = env.action_masks()
                if not mask.any() or env.done:
                    break
                action = int(rng.choice(np.flatnonzero(mask)))
                taken.append(action)
                rec(f"{tag}/e{episode}/s{step}", attempt(lambda: env.step(action)[:4]))
                rec(f"{tag}/e{episode}/s{step}/table", state(env.incomplete_game))
            if taken:
                rec(f"{tag}/e{episode}/unstep", attempt(lambda: env.unstep(taken[-1])[:4]))
                rec(f"{tag}/e{episode}/restep_known", attempt(lambda: env.step(taken[0])[:4]))
    rec("C/played", canon(played))
    return out


def main() -> int:
    warnings.simplefilter("ignore")
    np.seterr(all="ignore")
    with tempfile.TemporaryDirectory() as a, tempfile.TemporaryDirectory() as b:
        export_head(a)
        what = make_refactored(b)
        if all(open(os.path.join(a, PKG, f + ".py")).read() == open(os.path.join(b, PKG, f + ".py")).read()
               for f in CHANGED):
            raise SystemExit("the refactored sources equal the original ones: nothing to compare")
        ns_a = load(a, NAMES)
        bank, skipped = make_bank(ns_a)
        res_a = run_cases(ns_a, bank)
        res_b = run_cases(load(b, NAMES), bank)
    print(f"original: git HEAD; refactored: {what}; {len(bank)} games "
          f"({len(ns_a['generators'].GENERATORS) - len(skipped)} registry generators, skipped: {skipped}); "
          f"{len(res_a)} / {len(res_b)} compared results")
    if len(res_a) != len(res_b):
        print("DIFFERENT: number of results", len(res_a), len(res_b))
        return 1
    for (tag_a, val_a), (tag_b, val_b) in zip(res_a, res_b):
        if tag_a != tag_b or val_a != val_b:
            print("DIFFERENT")
            print("  original  :", tag_a, str(val_a)[:600])
            print("  refactored:", tag_b, str(val_b)[:600])
            return 1
    print("EQUIVALENT")
    return 0


if __name__ == "__main__":
    sys.exit(main())
