#!/venv/bin/python
"""Differential test: ORIGINAL package (git HEAD) against the REFACTORED one (worktree, or HEAD + patch_K.diff).

Run with cwd=/tmp/wt9/T05:  OMP_NUM_THREADS=1 /venv/bin/python /tmp/twin_out/T05/equiv_K.py

How it works
  * the original sources are taken from git (`git archive HEAD incomplete_cooperative`) into a temporary directory;
  * the refactored sources are the working-tree files of the worktree; if the working tree carries no change under
    incomplete_cooperative/ (e.g. after the clean-up) and patch_K.diff lies next to this script, the patch is applied to a
    second temporary copy of HEAD, so the script stays meaningful after the worktree was restored;
  * the same deterministic workload is run in two fresh interpreter processes, one per source tree (the package is
    imported under its real name, so its absolute imports work unchanged); every observable result (arrays with dtype and
    shape, scalars with their type, exceptions with type and message, random generator states, hidden games) is recorded;
  * the two traces are compared record by record, exactly (np.array_equal(equal_nan=True), dtypes, types, messages).
Prints EQUIVALENT and exits 0, or DIFFERENT with the first counterexample and exits 1.
"""
import io
import os
import pickle
import subprocess
import sys
import tarfile
import tempfile
from pathlib import Path

K = 2  # number of the refactoring this script belongs to
FOCUS = "linear"  # which workload gets the most cases: gym | linear | normalize
WORKTREE = Path("/tmp/wt9/T05")
HERE = Path(__file__).resolve().parent
PYTHON = "/venv/bin/python"


# ----------------------------------------------------------------------------------------------------------------------
# worker: runs inside a fresh interpreter with the wanted source tree first on sys.path
# ----------------------------------------------------------------------------------------------------------------------
def _plain(x):
    """Turn a result into plain python / numpy objects that can be pickled without the package."""
    import numpy as np
    if isinstance(x, np.ndarray):
        return ("ndarray", str(x.dtype), x.shape, x.copy())
    if isinstance(x, np.generic):
        return ("npscalar", type(x).__name__, x.item() if not isinstance(x, np.floating) else float(x).hex())
    if isinstance(x, bool):
        return ("bool", x)
    if isinstance(x, int):
        return ("int", x)
    if isinstance(x, float):
        return ("float", x.hex())
    if isinstance(x, str) or x is None:
        return x
    if isinstance(x, dict):
        return ("dict", [(str(k), _plain(v)) for k, v in x.items()])
    if isinstance(x, (list, tuple)):
        return (type(x).__name__, [_plain(v) for v in x])
    if isinstance(x, np.random.Generator):
        return ("rng", repr(x.bit_generator.state))
    if type(x).__name__ == "Coalition":
        return ("Coalition", x.id)
    if type(x).__name__ == "IncompleteCooperativeGame":
        return ("ICG", _plain(x._values))
    if type(x).__name__ == "GraphCooperativeGame":
        return ("GraphGame", _plain(x._graph_matrix))
    return ("repr", type(x).__name__, repr(x))


def _call(fn, *args, **kwargs):
    """Call and record either the result or the exception."""
    try:
        return ("ok", _plain(fn(*args, **kwargs)))
    except BaseException as e:  # noqa
        if isinstance(e, (KeyboardInterrupt, SystemExit, MemoryError)):
            raise
        return ("exc", type(e).__name__, str(e))


def worker(src: str, out: str, focus: str) -> None:
    sys.path.insert(0, src)
    import numpy as np
    import incomplete_cooperative
    assert Path(incomplete_cooperative.__file__).resolve().parent.parent == Path(src).resolve(), \
        (incomplete_cooperative.__file__, src)
    from incomplete_cooperative import generators as G
    from incomplete_cooperative.bounds import BOUNDS
    from incomplete_cooperative.coalitions import (Coalition, all_coalitions,
                                                   minimal_game_coalitions)
    from incomplete_cooperative.game import IncompleteCooperativeGame
    from incomplete_cooperative.graph_game import GraphCooperativeGame
    from incomplete_cooperative.icg_gym import ICG_Gym
    from incomplete_cooperative.icg_gym_linear import ICG_Gym_Linear
    from incomplete_cooperative.normalize import (denormalize_game,
                                                  normalize_game)
    from incomplete_cooperative.run.model import GAP_FUNCTIONS, ModelInstance

    records: list = []

    def rec(tag, *payload):
        records.append((tag, *payload))

    def reseed_module_generators(seed: int) -> None:
        """The graph_* registry entries draw from the unseeded module generator `_gen`: give it a known state."""
        G._gen.bit_generator.state = np.random.default_rng(seed).bit_generator.state
        G._LAST_OWNER = 0

    gen_names = [name for name in G.GENERATORS if name != "convex"]  # convex needs the missing pyfmtools
    bound_names = ["superadditive", "superadditive_cached", "sam_apx_1", "sam_apx_10"]
    gap_names = list(GAP_FUNCTIONS)

    def snap(env: ICG_Gym):
        ig = env.incomplete_game
        return _plain({
            "state": _call(lambda: env.state), "mask": _call(env.action_masks),
            "reward": _call(lambda: env.reward), "done": _call(lambda: env.done),
            "steps": env.steps_taken, "values": ig._values,
            "full": env.full_game, "norm": env.normalized_game,
        })

    def known_variant(which: int, n: int, rng):
        minimal = list(minimal_game_coalitions(n))
        if which == 0:
            return minimal
        if which == 1:  # a generator, with a few extra coalitions and duplicates
            extra = [Coalition(int(i)) for i in rng.integers(0, 2**n, size=3)]
            return (c for c in minimal + extra + extra[:1])
        if which == 2:  # nothing given: only the empty and the grand coalition are added by the gym
            return []
        if which == 3:  # everything known: nothing explorable
            return list(all_coalitions(n))
        return minimal[::-1]

    # ------------------------------------------------------------------ workload A: ICG_Gym (property C09)
    def gym_cases(n_values, walk_len, seeds):
        case = 0
        for seed in seeds:
            for gen_name in gen_names:
                for n in n_values:
                    case += 1
                    rng = np.random.default_rng([seed, case])
                    reseed_module_generators(1000 * seed + case)
                    bound_name = bound_names[case % len(bound_names)]
                    gap_name = gap_names[(case // 2) % len(gap_names)]
                    budget = [None, 0, 2, 5, np.int64(3), 1][case % 6]
                    variant = [0, 1, 4, 0, 1, 1, 0, 4, 1, 3, 0, 4, 1, 2, 0, 1, 4][(case // 3) % 17]
                    # (2 and 3 make the construction fail: no bound computer accepts unknown singletons, and an
                    # empty action space is rejected by gymnasium; they are kept as rare exception cases)
                    gen_rng = np.random.default_rng([seed, case, 7])
                    generator = lambda: G.GENERATORS[gen_name](n, gen_rng)  # noqa: E731
                    head = ("gym", gen_name, n, bound_name, gap_name, repr(budget), variant, seed)
                    try:
                        game = IncompleteCooperativeGame(n, BOUNDS[bound_name])
                        env = ICG_Gym(game, generator, known_variant(variant, n, rng), GAP_FUNCTIONS[gap_name],
                                      done_after_n_actions=budget)
                    except Exception as e:  # noqa
                        rec(head, "init-exc", type(e).__name__, str(e))
                        continue
                    rec(head, "init", snap(env), _plain([c.id for c in env.explorable_coalitions]),
                        _plain(sorted(c.id for c in env.initially_known_coalitions)),
                        repr(env.observation_space), repr(env.action_space), _plain(gen_rng))
                    stepped: list[int] = []
                    for t in range(walk_len):
                        n_actions = len(env.explorable_coalitions)
                        mask = env.action_masks()
                        valid = np.flatnonzero(mask)
                        u = rng.random()
                        if u < 0.55 and len(valid):
                            a = int(rng.choice(valid))
                            op = ("step", a)
                            res = _call(env.step, a)
                            if res[0] == "ok":
                                stepped.append(a)
                        elif u < 0.70 and stepped:
                            a = stepped.pop(int(rng.integers(len(stepped))))
                            op = ("unstep", a)
                            res = _call(env.unstep, a)
                        elif u < 0.78:
                            op = ("reset", t)
                            res = _call(env.reset, seed=int(rng.integers(100)) if t % 2 else None)
                            stepped = []
                        elif u < 0.84:  # reveal a known coalition / out of range / numpy integer action
                            known = np.flatnonzero(~mask)
                            a = int(rng.choice(known)) if len(known) else n_actions + 3
                            op = ("step-invalid", a)
                            res = _call(env.step, a)
                        elif u < 0.88:
                            a = int(rng.choice(valid)) if len(valid) else -n_actions - 1
                            op = ("unstep-invalid", a)
                            res = _call(env.unstep, a)
                        elif u < 0.94 and len(valid):
                            a = np.int64(rng.choice(valid))
                            op = ("step-np", int(a))
                            res = _call(env.step, a)
                            if res[0] == "ok":
                                stepped.append(int(a))
                        else:
                            a = n_actions + int(rng.integers(0, 3))
                            op = ("step-out-of-range", a)
                            res = _call(env.step, a)
                        rec(head, t, op, res, snap(env), _plain(gen_rng))

    # ------------------------------------------------------------------ workload B: ICG_Gym_Linear (property C16)
    def linear_cases(n_values, walk_len, seeds):
        case = 0
        for seed in seeds:
            for gen_name in gen_names:
                for n in n_values:
                    case += 1
                    rng = np.random.default_rng([seed, case, 1])
                    reseed_module_generators(2000 * seed + case)
                    bound_name = bound_names[case % len(bound_names)]
                    gap_name = gap_names[(case // 2) % len(gap_names)]
                    budget = [None, 3, np.int64(2), 7][case % 4]
                    variant = [0, 0, 1, 4, 1, 0, 1, 3, 4, 1, 0, 0, 4, 2, 1, 0, 4][(case // 3) % 17]
                    # (2 and 3 make the construction fail: no bound computer accepts unknown singletons, and an
                    # empty action space is rejected by gymnasium; they are kept as rare exception cases)
                    gen_rng = np.random.default_rng([seed, case, 8])
                    tie_rng = np.random.default_rng([seed, case, 9])
                    generator = lambda: G.GENERATORS[gen_name](n, gen_rng)  # noqa: E731
                    head = ("linear", gen_name, n, bound_name, gap_name, repr(budget), variant, seed)
                    try:
                        game = IncompleteCooperativeGame(n, BOUNDS[bound_name])
                        env = ICG_Gym(game, generator, known_variant(variant, n, rng), GAP_FUNCTIONS[gap_name],
                                      done_after_n_actions=budget)
                    except Exception as e:  # noqa
                        rec(head, "init-exc", type(e).__name__, str(e))
                        continue
                    lin = _call(ICG_Gym_Linear, env, tie_rng)
                    if lin[0] != "ok":
                        rec(head, "linear-init-exc", lin)
                        continue
                    lin = ICG_Gym_Linear(env, tie_rng)

                    def lsnap():
                        return _plain({"state": _call(lambda: lin.state), "mask": _call(lin.action_masks),
                                       "reward": _call(lambda: lin.reward), "done": _call(lambda: lin.done),
                                       "under": snap(env), "tie_rng": tie_rng, "gen_rng": gen_rng,
                                       "sizes": lin.subset_sizes})
                    rec(head, "init", lsnap(), repr(lin.observation_space), repr(lin.action_space))
                    for t in range(walk_len):
                        mask = _call(lin.action_masks)
                        u = rng.random()
                        allowed = np.flatnonzero(mask[1][3]) if mask[0] == "ok" else np.array([], int)
                        if u < 0.6 and len(allowed):
                            k = int(rng.choice(allowed))
                            op = ("step", k)
                            res = _call(lin.step, k)
                        elif u < 0.68 and len(allowed):
                            k = np.int64(rng.choice(allowed))
                            op = ("step-np", int(k))
                            res = _call(lin.step, coalition_size=k)
                        elif u < 0.78:
                            op = ("reset", t)
                            res = _call(lin.reset, seed=3) if t % 2 else _call(lin.reset)
                        elif u < 0.88:  # a size with nothing left to reveal (0, 1, n, or exhausted)
                            forbidden = np.setdiff1d(np.arange(n), allowed)
                            k = int(rng.choice(forbidden)) if len(forbidden) else 0
                            op = ("step-forbidden", k)
                            res = _call(lin.step, k)
                        elif u < 0.94:
                            k = [n, -1, n + 2][t % 3]
                            op = ("step-out-of-range", k)
                            res = _call(lin.step, k)
                        else:
                            op = ("sum-wrong-shape", t)
                            res = _call(lin._sum_values_of_the_same_size, np.zeros(len(env.explorable_coalitions) + 1))
                        rec(head, t, op, res, lsnap())

    # ------------------------------------------------------------------ workload C: environments built by ModelInstance
    def model_cases(seeds, names, n_values):
        for seed in seeds:
            for gen_name in names:
                for n in n_values:
                    for linear in (False, True):
                        reseed_module_generators(3000 * seed + n)
                        head = ("model", gen_name, n, linear, seed)
                        limit = [None, 3, 6][(seed + n) % 3]
                        game_class = bound_names[(seed + n + int(linear)) % len(bound_names)]
                        gap = gap_names[(seed + n) % len(gap_names)]
                        try:
                            inst = ModelInstance(number_of_players=n, game_class=game_class, game_generator=gen_name,
                                                 gap_function=gap, run_steps_limit=limit, linear=linear, seed=seed)
                            env = inst.get_env()
                        except Exception as e:  # noqa
                            rec(head, "init-exc", type(e).__name__, str(e))
                            continue
                        for episode in range(2):
                            rec(head, "reset", _call(env.reset), _plain(inst.game_generator_rng))
                            for t in range(2**n):
                                mask = env.action_masks()
                                if not mask.any() or env.done:
                                    rec(head, episode, t, "end", _call(lambda: env.done), _plain(mask))
                                    break
                                a = int(env.np_random.choice(np.flatnonzero(mask)))
                                rec(head, episode, t, a, _call(env.step, a), _plain(mask), _call(lambda: env.reward),
                                    _call(lambda: env.done), _plain(env.np_random))

    # ------------------------------------------------------------------ workload D: normalisation and the game table
    def normalize_cases(n_values, seeds):
        case = 0
        for seed in seeds:
            for gen_name in gen_names:
                for n in n_values:
                    case += 1
                    reseed_module_generators(4000 * seed + case)
                    rng = np.random.default_rng([seed, case, 2])
                    head = ("normalize", gen_name, n, seed)
                    game = _call(G.GENERATORS[gen_name], n, rng)
                    if game[0] != "ok":
                        rec(head, "gen-exc", game)
                        continue
                    reseed_module_generators(4000 * seed + case)
                    game = G.GENERATORS[gen_name](n, np.random.default_rng([seed, case, 2]))
                    original = game.copy()
                    res = _call(normalize_game, game)
                    rec(head, "normalize", res, _plain(game), _call(game.get_values))
                    if res[0] == "ok":
                        info = normalize_game(original.copy())
                        rec(head, "denormalize", _call(denormalize_game, game, info), _plain(game))
                    if isinstance(original, IncompleteCooperativeGame):
                        # table accessors with lists, generators, numpy-integer ids, empty selections
                        ids = [int(i) for i in rng.integers(0, 2**n, size=5)]
                        sel = [Coalition(i) for i in ids]
                        for name in ("get_values", "get_upper_bounds", "get_lower_bounds", "get_intervals",
                                     "are_values_known", "get_known_values"):
                            fn = getattr(original, name)
                            rec(head, name, _call(fn), _call(fn, sel), _call(fn, (c for c in sel)), _call(fn, []),
                                _call(fn, [Coalition(np.int64(ids[0]))]), _call(fn, [Coalition(2**n + 1)]),
                                _call(fn, 5), _call(fn, [3]))
                        partial_game = original.copy()
                        for i in ids[:3]:
                            partial_game.unset_value(Coalition(i))
                        rec(head, "partial", _call(partial_game.get_values), _call(partial_game.get_values, sel),
                            _call(partial_game.get_known_values, sel), _call(partial_game.are_values_known, sel),
                            _call(normalize_game, partial_game), _plain(partial_game))
                        again = original.copy()
                        rec(head, "set_known_values",
                            _call(again.set_known_values, again.get_values(sel), (c for c in sel)), _plain(again),
                            _call(again.set_known_values, (v for v in [1.0, 2.0]), sel[:2]), _plain(again),
                            _call(again.set_known_values, [1.0], sel[:2]), _plain(again))
        # hand-made corner cases
        for n in (1, 2, 3, 4):
            zero = IncompleteCooperativeGame(n)
            zero.set_values(np.zeros(2**n))
            rec("normalize-zero", n, _call(normalize_game, zero), _plain(zero))
            additive = IncompleteCooperativeGame(n)
            weights = np.random.default_rng(n).random(n) * 10
            for c in all_coalitions(n):
                additive.set_value(sum(weights[list(c.players)]), c)
            rec("normalize-additive", n, _call(normalize_game, additive), _plain(additive))
            graph = GraphCooperativeGame(np.zeros((n, n)))
            rec("normalize-zero-graph", n, _call(normalize_game, graph), _plain(graph))
            neg = GraphCooperativeGame(-np.random.default_rng(n).random((n, n)))
            info = _call(normalize_game, neg)
            rec("normalize-neg-graph", n, info, _plain(neg))
            unknown = IncompleteCooperativeGame(n)
            rec("normalize-unknown", n, _call(normalize_game, unknown), _plain(unknown))
        rec("normalize-type", _call(normalize_game, object()), _call(normalize_game, None))

    big = {"gym": 0, "linear": 1, "normalize": 2}[focus]
    gym_cases((3, 4, 5) if big == 0 else (3, 4), 14 if big == 0 else 8, (1, 2, 3) if big == 0 else (1,))
    linear_cases((3, 4, 5) if big == 1 else (3, 4), 14 if big == 1 else 8, (1, 2, 3) if big == 1 else (1,))
    model_cases((11, 12, 13), ["factory", "noisy_factory", "graph", "graph_cycle", "xos", "xs", "oxs", "additive"
                               if "additive" in G.GENERATORS else "k_budget_generator", "covg_fn_generator",
                               "graph_random", "predictible_factory", "factory_cheerleader_next"], (3, 4, 5))
    normalize_cases((2, 3, 4, 5) if big == 2 else (3, 4), (1, 2, 3) if big == 2 else (1,))

    with open(out, "wb") as f:
        pickle.dump(records, f)


# ----------------------------------------------------------------------------------------------------------------------
# driver
# ----------------------------------------------------------------------------------------------------------------------
def same(a, b) -> bool:
    import numpy as np
    if type(a) is not type(b):
        return False
    if isinstance(a, np.ndarray):
        if a.dtype != b.dtype or a.shape != b.shape:
            return False
        if a.dtype == object:
            return all(same(x, y) for x, y in zip(a.ravel().tolist(), b.ravel().tolist()))
        return bool(np.array_equal(a, b, equal_nan=a.dtype.kind in "fc"))
    if isinstance(a, (list, tuple)):
        return len(a) == len(b) and all(same(x, y) for x, y in zip(a, b))
    if isinstance(a, dict):
        return list(a) == list(b) and all(same(a[k], b[k]) for k in a)
    if isinstance(a, float):
        return a == b or (a != a and b != b)
    return a == b


def first_difference(a, b, path="record"):
    """Describe the innermost place where two records differ."""
    if isinstance(a, (list, tuple)) and isinstance(b, (list, tuple)) and type(a) is type(b) and len(a) == len(b):
        for i, (x, y) in enumerate(zip(a, b)):
            if not same(x, y):
                return first_difference(x, y, f"{path}[{i}]")
    return f"{path}:\n    original:   {a!r}\n    refactored: {b!r}"


def extract_head(dest: Path) -> None:
    data = subprocess.run(["git", "-C", str(WORKTREE), "archive", "HEAD", "incomplete_cooperative"],
                          check=True, capture_output=True).stdout
    with tarfile.open(fileobj=io.BytesIO(data)) as tar:
        tar.extractall(dest)


def main() -> int:
    env = dict(os.environ, OMP_NUM_THREADS="1", MKL_NUM_THREADS="1", PYTHONDONTWRITEBYTECODE="1", PYTHONHASHSEED="0")
    env.pop("PYTHONPATH", None)
    with tempfile.TemporaryDirectory(prefix="equiv_orig_") as orig, \
            tempfile.TemporaryDirectory(prefix="equiv_new_") as new, \
            tempfile.TemporaryDirectory(prefix="equiv_out_") as outdir:
        extract_head(Path(orig))
        dirty = subprocess.run(["git", "-C", str(WORKTREE), "diff", "--quiet", "HEAD", "--", "incomplete_cooperative"]
                               ).returncode != 0
        patch = HERE / f"patch_{K}.diff"
        if dirty:
            # refactored = the working tree files (tracked files as they are now, plus untracked python files)
            subprocess.run(["cp", "-r", str(WORKTREE / "incomplete_cooperative"), new], check=True)
            source = "working tree of " + str(WORKTREE)
        elif patch.exists() and patch.stat().st_size:
            extract_head(Path(new))
            subprocess.run(["patch", "-s", "-p1", "-d", new, "-i", str(patch)], check=True)
            source = f"HEAD + {patch}"
        else:
            print("DIFFERENT\nno refactoring found: the worktree is clean and there is no", patch)
            return 1
        changed = subprocess.run(["diff", "-rq", "-x", "__pycache__", orig, new], capture_output=True, text=True).stdout
        print(f"original: git HEAD of {WORKTREE}; refactored: {source}")
        print("files that differ:\n  " + (changed.strip().replace("\n", "\n  ") or "(none!)"))
        if not changed.strip():
            print("DIFFERENT\nthe refactored tree is identical to the original one - nothing to test")
            return 1
        outs = []
        procs = []
        for label, src in (("orig", orig), ("new", new)):
            out = str(Path(outdir) / f"{label}.pkl")
            outs.append(out)
            procs.append(subprocess.Popen([PYTHON, str(Path(__file__).resolve()), "--worker", src, out, FOCUS],
                                          cwd=outdir, env=env))
        codes = [p.wait() for p in procs]
        if any(codes):
            print(f"DIFFERENT\nworker exit codes {codes}")
            return 1
        with open(outs[0], "rb") as f:
            a = pickle.load(f)
        with open(outs[1], "rb") as f:
            b = pickle.load(f)
    n_exc = sum(1 for r in a if "'exc'" in repr(r)[:100000])
    print(f"{len(a)} / {len(b)} records compared ({n_exc} of them contain recorded exceptions); "
          f"by workload: " + ", ".join(f"{t}={sum(1 for r in a if (r[0][0] if isinstance(r[0], tuple) else r[0]).startswith(t))}"
                                      for t in ("gym", "linear", "model", "normalize")))
    if len(a) != len(b):
        print("DIFFERENT\nnumber of records differs")
        return 1
    for i, (x, y) in enumerate(zip(a, b)):
        if not same(x, y):
            print(f"DIFFERENT\nfirst counterexample: record {i}, case {x[0]!r}")
            print(first_difference(x, y))
            return 1
    print("EQUIVALENT")
    return 0


if __name__ == "__main__":
    if len(sys.argv) > 1 and sys.argv[1] == "--worker":
        worker(sys.argv[2], sys.argv[3], sys.argv[4])
    else:
        sys.exit(main())
