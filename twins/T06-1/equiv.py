"""Differential test for refactoring 1 (normalize.py: extracted `_singleton_coalitions` / `_denormalize_icg`).

Run with cwd=/tmp/wt9/T06.  The ORIGINAL package is taken from `git show HEAD:<path>` (all tracked files under
incomplete_cooperative/ are written to a temporary directory), the REFACTORED one is the working tree.  Each version is
executed in its own interpreter (`--worker <root> <out>`), with identical inputs, and the pickled outcomes are compared
exactly (bit for bit for arrays, type + message for exceptions).
"""
import os
import pickle
import subprocess
import sys
import tempfile
from pathlib import Path

import numpy as np

WORKTREE = Path("/tmp/wt9/T06")


# --------------------------------------------------------------------------------------------------------------------
# worker: runs the cases against the package found under `root`
# --------------------------------------------------------------------------------------------------------------------
def _outcome(fn):
    try:
        return ("ok", fn())
    except BaseException as e:  # noqa
        return ("exc", type(e).__name__, str(e))


def _table(game):
    """Whole internal state of a game, exactly."""
    if hasattr(game, "_graph_matrix"):
        return ("graph", game.number_of_players, game._graph_matrix.copy(), str(game._graph_matrix.dtype))
    return ("icg", game.number_of_players, game._values.copy(), str(game._values.dtype))


def worker(root: str, out: str) -> None:
    sys.path.insert(0, root)
    import incomplete_cooperative
    assert Path(incomplete_cooperative.__file__).resolve().is_relative_to(Path(root).resolve()), incomplete_cooperative.__file__
    from incomplete_cooperative import generators as G
    from incomplete_cooperative import normalize as N
    from incomplete_cooperative.coalitions import Coalition, all_coalitions
    from incomplete_cooperative.game import IncompleteCooperativeGame
    from incomplete_cooperative.graph_game import GraphCooperativeGame

    results = []

    def roundtrip(label, game):
        """normalize -> record -> denormalize -> record, everything exact."""
        def run():
            rec = []
            g = game.copy()
            info = N.normalize_game(g)
            rec.append(("info0", np.asarray(info[0]).copy(), type(info[0]).__name__))
            rec.append(("info1", np.asarray(info[1]).copy(), str(np.asarray(info[1]).dtype)))
            rec.append(("normalized", _table(g)))
            rec.append(("norm_values", g.get_values().copy()))
            N.denormalize_game(g, info)
            rec.append(("denormalized", _table(g)))
            # second normalisation of the already normalised game + private helper
            h = game.copy()
            N.normalize_game(h)
            info2 = N.normalize_game(h)
            rec.append(("info2", np.asarray(info2[0]).copy(), np.asarray(info2[1]).copy()))
            rec.append(("normalized2", _table(h)))
            gi = N._get_norminfo(game)
            rec.append(("get_norminfo", np.asarray(gi[0]).copy(), np.asarray(gi[1]).copy()))
            rec.append(("input_untouched", _table(game)))
            return rec
        results.append((label, _outcome(run)))

    def tabulated(graph_game):
        t = IncompleteCooperativeGame(graph_game.number_of_players)
        t.set_values(graph_game.get_values())
        return t

    # 1. every registry generator, n = 3..6, several seeds
    for name in sorted(G.GENERATORS):
        for n in (3, 4, 5, 6):
            if name == "oxs" and n > 5:
                continue
            for seed in (0, 1, 2, 7):
                G._gen.bit_generator.state = np.random.default_rng(1000 * n + seed).bit_generator.state
                G._LAST_OWNER = seed % n
                made = _outcome(lambda: G.GENERATORS[name](n, np.random.default_rng(seed)))
                if made[0] != "ok":
                    results.append((f"gen/{name}/{n}/{seed}", made))
                    continue
                game = made[1]
                roundtrip(f"gen/{name}/{n}/{seed}", game)
                if isinstance(game, GraphCooperativeGame):
                    roundtrip(f"gen-tab/{name}/{n}/{seed}", tabulated(game))

    # 2. random tabulated games (not necessarily superadditive), signed, large and tiny magnitudes
    rng = np.random.default_rng(20240)
    for i in range(200):
        n = int(rng.integers(1, 7))
        scale = float(10.0 ** rng.integers(-12, 13))
        vals = rng.normal(size=2**n) * scale
        if i % 3 == 0:
            vals[0] = 0
        g = IncompleteCooperativeGame(n)
        g.set_values(vals)
        roundtrip(f"rand-icg/{i}", g)

    # 3. additive games (exact and with rounding residue) -> zero game branch
    for i in range(120):
        n = int(rng.integers(1, 7))
        w = rng.random(n) * float(10.0 ** rng.integers(-6, 7))
        if i % 4 == 0:
            w = np.round(w * 8) / 8
        ids = np.arange(2**n)
        vals = np.array([w[[p for p in range(n) if c >> p & 1]].sum() for c in ids], dtype=float)
        if i % 5 == 0:
            vals[-1] = np.nextafter(vals[-1], np.inf)
        g = IncompleteCooperativeGame(n)
        g.set_values(vals)
        roundtrip(f"additive/{i}", g)

    # 4. incomplete games: unknown singletons / grand coalition / other values -> exceptions
    for i in range(120):
        n = int(rng.integers(2, 6))
        g = IncompleteCooperativeGame(n)
        g.set_values(rng.random(2**n))
        k = int(rng.integers(1, 4))
        for c in rng.choice(2**n, k, replace=False):
            g.unset_value(Coalition(int(c)))
        roundtrip(f"incomplete/{i}", g)

    # 5. graph games: random / zero / negative / integer matrices, and their tabulated forms
    for i in range(150):
        n = int(rng.integers(1, 7))
        kind = i % 5
        if kind == 0:
            m = rng.random((n, n))
        elif kind == 1:
            m = np.zeros((n, n))
        elif kind == 2:
            m = rng.normal(size=(n, n))
        elif kind == 3:
            m = rng.integers(0, 3, size=(n, n))
        else:
            m = rng.random((n, n)) * 1e-300
        made = _outcome(lambda: GraphCooperativeGame(m))
        if made[0] != "ok":
            results.append((f"graph/{i}", made))
            continue
        roundtrip(f"graph/{i}", made[1])
        roundtrip(f"graph-tab/{i}", tabulated(made[1]))
        roundtrip(f"graph-neg/{i}", -made[1])

    # 6. denormalize with foreign / malformed normalisation information
    for i in range(150):
        n = int(rng.integers(1, 6))
        g = IncompleteCooperativeGame(n)
        g.set_values(rng.random(2**n))
        gg = GraphCooperativeGame(rng.random((n, n)))
        infos = [
            (np.float64(rng.normal()), rng.normal(size=n)),
            (float(rng.normal()), list(rng.normal(size=n))),
            (np.float64(2.0), rng.normal(size=max(n - 1, 0))),     # too short -> IndexError (n >= 1)
            (np.float64(0.0), np.zeros(n)),
            (np.float64(np.nan), np.full(n, np.inf)),
            (1, np.arange(n)),
            (np.float64(1.5),),                                      # wrong arity
            None,
        ]
        info = infos[i % len(infos)]
        for lab, game in (("icg", g), ("graph", gg)):
            def run(game=game, info=info):
                c = game.copy()
                r = N.denormalize_game(c, info)
                return (r, _table(c))
            results.append((f"denorm/{lab}/{i}", _outcome(run)))
        if i % 10 == 0:
            inc = IncompleteCooperativeGame(n)  # nothing known but the empty coalition
            results.append((f"denorm/unknown/{i}", _outcome(lambda: (N.denormalize_game(inc, infos[0]), _table(inc)))))

    # 7. unsupported objects
    class Dummy:
        number_of_players = 2

        def get_values(self, coalitions=None):
            return np.zeros(2 if coalitions is not None else 4)

        def get_value(self, coalition):
            return np.float64(0)

    for obj in (None, 3, "x", Dummy(), object()):
        results.append((f"bad-normalize/{type(obj).__name__}", _outcome(lambda: N.normalize_game(obj))))
        results.append((f"bad-denormalize/{type(obj).__name__}",
                        _outcome(lambda: N.denormalize_game(obj, (np.float64(1.0), np.zeros(2))))))

    with open(out, "wb") as f:
        pickle.dump(results, f)


# --------------------------------------------------------------------------------------------------------------------
# driver
# --------------------------------------------------------------------------------------------------------------------
def same(a, b) -> bool:
    if type(a) is not type(b):
        return False
    if isinstance(a, np.ndarray):
        if a.dtype != b.dtype or a.shape != b.shape:
            return False
        if a.dtype.kind == "f":
            return bool(np.array_equal(a, b, equal_nan=True)) and bool(np.array_equal(np.signbit(a), np.signbit(b)))
        return bool(np.array_equal(a, b))
    if isinstance(a, (list, tuple)):
        return len(a) == len(b) and all(same(x, y) for x, y in zip(a, b))
    if isinstance(a, dict):
        return a.keys() == b.keys() and all(same(a[k], b[k]) for k in a)
    if isinstance(a, (float, np.floating)):
        return (a == b) or (a != a and b != b)
    return a == b


def extract_original(dest: Path) -> None:
    files = subprocess.run(["git", "-C", str(WORKTREE), "ls-tree", "-r", "--name-only", "HEAD", "incomplete_cooperative"],
                           check=True, capture_output=True, text=True).stdout.split()
    for rel in files:
        blob = subprocess.run(["git", "-C", str(WORKTREE), "show", f"HEAD:{rel}"], check=True, capture_output=True).stdout
        target = dest / rel
        target.parent.mkdir(parents=True, exist_ok=True)
        target.write_bytes(blob)


def main() -> int:
    env = dict(os.environ, OMP_NUM_THREADS="1", MKL_NUM_THREADS="1", PYTHONDONTWRITEBYTECODE="1", PYTHONHASHSEED="0")
    with tempfile.TemporaryDirectory(prefix="T06_equiv1_") as tmp:
        orig_root = Path(tmp) / "orig"
        extract_original(orig_root)
        outs = {}
        for label, root in (("orig", orig_root), ("new", WORKTREE)):
            out = Path(tmp) / f"{label}.pkl"
            subprocess.run([sys.executable, __file__, "--worker", str(root), str(out)], check=True, env=env, cwd=tmp)
            with open(out, "rb") as f:
                outs[label] = pickle.load(f)
    a, b = outs["orig"], outs["new"]
    if len(a) != len(b):
        print("DIFFERENT: number of cases", len(a), len(b))
        return 1
    n_exc = 0
    for (la, ra), (lb, rb) in zip(a, b):
        if la != lb or not same(ra, rb):
            print("DIFFERENT at case", la, lb)
            print(" original  :", ra)
            print(" refactored:", rb)
            return 1
        n_exc += ra[0] == "exc"
    print(f"{len(a)} cases compared ({n_exc} of them raise identically)")
    print("EQUIVALENT")
    return 0


if __name__ == "__main__":
    if len(sys.argv) > 1 and sys.argv[1] == "--worker":
        worker(sys.argv[2], sys.argv[3])
    else:
        sys.exit(main())
