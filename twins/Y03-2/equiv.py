"""Differential equivalence check: original (git HEAD) vs. refactored (worktree) ICG_Gym / ICG_Gym_Linear.

Usage: equiv_2.py [worktree]      (default worktree: /tmp/wt_y5_Y03)
Exit status 0 iff the pickled outcomes of both trees are byte-identical.
"""
import os
import shutil
import subprocess
import sys
import tempfile

WORKTREE = os.path.abspath(sys.argv[1]) if len(sys.argv) > 1 else "/tmp/wt_y5_Y03"
PYTHON = "/venv/bin/python" if os.path.exists("/venv/bin/python") else sys.executable

DRIVER = r'''
import pickle
import sys

import numpy as np

import incomplete_cooperative.icg_gym as icg_gym_module
import incomplete_cooperative.icg_gym_linear as icg_gym_linear_module
from incomplete_cooperative.bounds import compute_bounds_superadditive
from incomplete_cooperative.coalitions import Coalition
from incomplete_cooperative.exploitability import compute_exploitability
from incomplete_cooperative.game import IncompleteCooperativeGame
from incomplete_cooperative.generators import factory_generator
from incomplete_cooperative.icg_gym import ICG_Gym, compute_reward
from incomplete_cooperative.icg_gym_linear import ICG_Gym_Linear

OUT = []


def enc(x):
    """Turn a result into something with a canonical pickle."""
    if isinstance(x, np.ndarray):
        return ("nd", x.dtype.str, x.shape, x.tobytes())
    if isinstance(x, np.generic):
        return ("ng", x.dtype.str, x.tobytes())
    if isinstance(x, IncompleteCooperativeGame):
        return ("icg", x.number_of_players, enc(x._values))
    if isinstance(x, Coalition):
        return ("coal", x.id)
    if isinstance(x, dict):
        return ("dict", [(k, enc(v)) for k, v in x.items()])
    if isinstance(x, (tuple, list)):
        return (type(x).__name__, [enc(v) for v in x])
    if isinstance(x, (bool, int, float, str, type(None))):
        return (type(x).__name__, x)
    return ("repr", type(x).__name__, repr(x))


def attempt(label, fn):
    try:
        r = ("ok", enc(fn()))
    except BaseException as e:  # noqa
        r = ("exc", type(e).__name__, str(e))
    OUT.append((label, r))
    return r


def snapshot(label, env):
    g = env
    OUT.append((label, "snap",
                [c.id if isinstance(c, Coalition) else ("raw", repr(c)) for c in g.initially_known_coalitions],
                [c.id for c in g.explorable_coalitions],
                g.steps_taken, g.done_after_n_actions,
                enc(g.incomplete_game._values), enc(g.full_game._values), enc(g.normalized_game._values),
                enc(g.observation_space.low), enc(g.observation_space.high),
                g.observation_space.shape, g.observation_space.dtype.str, int(g.action_space.n)))


def known_sets(n, rng):
    """Produce a variety of `initially_known_coalitions` arguments (with a label)."""
    full = 2**n
    singles = [2**i for i in range(n)]
    yield "minimal", lambda: [Coalition(i) for i in [0, full - 1] + singles]
    yield "singles_only", lambda: [Coalition(i) for i in singles]
    yield "empty", lambda: []
    yield "tuple_dups", lambda: tuple(Coalition(i) for i in singles + singles + [0, 0])
    yield "generator", lambda: (Coalition(i) for i in singles)
    yield "set", lambda: {Coalition(i) for i in singles}
    yield "all", lambda: [Coalition(i) for i in range(full)]
    yield "all_but_one", lambda: [Coalition(i) for i in range(full) if i != 3 % full]
    yield "with_ints", lambda: [Coalition(i) for i in singles] + [3, 5, 0, full - 1]
    yield "only_ints", lambda: list(range(full))
    yield "with_none_str", lambda: [Coalition(1), None, "a", 2.0, (1, 2)]
    yield "unhashable", lambda: [Coalition(1), [1, 2]]
    yield "not_iterable", lambda: 7
    for k in range(4):
        ids = sorted(int(i) for i in rng.choice(full, size=int(rng.integers(0, full)), replace=False))
        ids = [int(i) for i in rng.permutation(ids)]
        yield f"random{k}", (lambda ids=ids: [Coalition(i) for i in singles + ids])


def run_ops(label, env, lin, rng, n_ops):
    n_act = len(env.explorable_coalitions)
    for t in range(n_ops):
        op = int(rng.integers(0, 12))
        lab = f"{label}/op{t}/{op}"
        if op in (0, 1, 2):  # valid step if possible, else arbitrary one
            masks = env.action_masks()
            valid = np.flatnonzero(masks)
            a = int(rng.choice(valid)) if len(valid) else int(rng.integers(-1, n_act + 2))
            attempt(lab + f"/step{a}", lambda: env.step(a))
        elif op == 3:  # arbitrary step: may be already revealed / out of range
            a = int(rng.integers(-n_act - 2, n_act + 3))
            attempt(lab + f"/rstep{a}", lambda: env.step(a))
        elif op == 4:  # unstep of a revealed action, if any
            known = np.flatnonzero(~env.action_masks())
            a = int(rng.choice(known)) if len(known) else int(rng.integers(-1, n_act + 2))
            attempt(lab + f"/unstep{a}", lambda: env.unstep(a))
        elif op == 5:
            a = int(rng.integers(-n_act - 2, n_act + 3))
            attempt(lab + f"/runstep{a}", lambda: env.unstep(a))
        elif op == 6:
            attempt(lab + "/reset", lambda: env.reset(seed=int(rng.integers(0, 100))))
        elif op == 7:
            attempt(lab + "/lin_masks", lambda: lin.action_masks())
            attempt(lab + "/lin_state", lambda: lin.state)
        elif op in (8, 9):
            size = int(rng.integers(-1, lin.number_of_players + 2))
            r = attempt(lab + f"/lin_step{size}", lambda: lin.step(size))
            OUT.append((lab, "lin_step_len", len(r[1][1]) if r[0] == "ok" else None))
            attempt(lab + "/lin_step_type", lambda: [type(v).__name__ for v in lin.step(size)])
        elif op == 10:
            attempt(lab + "/lin_reset", lambda: lin.reset(seed=3))
            attempt(lab + "/lin_done_reward", lambda: (lin.done, lin.reward))
        else:
            env.done_after_n_actions = [None, 0, 1, 2, 5, -1][int(rng.integers(0, 6))]
        attempt(lab + "/done", lambda: env.done)
        attempt(lab + "/type_done", lambda: type(env.done).__name__)
        attempt(lab + "/masks", lambda: env.action_masks())
        attempt(lab + "/state", lambda: env.state)
        attempt(lab + "/reward", lambda: env.reward)
        OUT.append((lab, "state", env.steps_taken, enc(env.incomplete_game._values),
                    enc(env.full_game._values), rng.bit_generator.state["state"]["state"]))


def main():
    OUT.append(("names",
                [hasattr(icg_gym_module, n) for n in
                 ("ICG_Gym", "compute_reward", "Coalition", "all_coalitions", "grand_coalition", "normalize_game",
                  "NormalizableGame", "GapFunction", "IncompleteGame", "Info", "MutableIncompleteGame", "State",
                  "StepResult", "Value", "gym", "np", "Any", "Callable", "Iterable")],
                [hasattr(icg_gym_linear_module, n) for n in
                 ("ICG_Gym_Linear", "ICG_Gym", "Info", "State", "StepResult", "Value", "gym", "np")],
                ICG_Gym.__module__, ICG_Gym.__qualname__, ICG_Gym_Linear.__module__, ICG_Gym_Linear.__qualname__,
                ICG_Gym.step.__name__, ICG_Gym_Linear.step.__name__, ICG_Gym_Linear.step.__qualname__,
                ICG_Gym_Linear.step.__doc__, ICG_Gym_Linear.step.__module__))
    case = 0
    for n in (2, 3, 4, 5):
        for seed in (0, 1):
            srng = np.random.default_rng([n, seed])
            for kname, kfn in known_sets(n, srng):
                for limit in (None, 0, 2):
                    case += 1
                    label = f"n{n}/s{seed}/{kname}/lim{limit}"
                    gen_rng = np.random.default_rng([n, seed, 17])
                    op_rng = np.random.default_rng([n, seed, case])
                    incomplete = IncompleteCooperativeGame(n, compute_bounds_superadditive)

                    def generator():
                        return factory_generator(n, gen_rng, random_weights=True,
                                                 bounds_computer=compute_bounds_superadditive)
                    holder = {}

                    def build():
                        holder["env"] = ICG_Gym(incomplete, generator, kfn(), compute_exploitability, limit)
                        return None
                    r = attempt(label + "/init", build)
                    OUT.append((label, "gen_rng", gen_rng.bit_generator.state["state"]["state"]))
                    if r[0] != "ok":
                        continue
                    env = holder["env"]
                    snapshot(label + "/snap0", env)
                    r = attempt(label + "/lin_init", lambda: holder.__setitem__(
                        "lin", ICG_Gym_Linear(env, np.random.default_rng([n, seed, 99]))))
                    if r[0] != "ok":
                        # the linear wrapper cannot be built (e.g. nothing explorable): exercise the gym alone
                        attempt(label + "/done", lambda: env.done)
                        attempt(label + "/masks", lambda: env.action_masks())
                        attempt(label + "/state", lambda: env.state)
                        attempt(label + "/step0", lambda: env.step(0))
                        attempt(label + "/unstep0", lambda: env.unstep(0))
                        attempt(label + "/reset", lambda: env.reset(seed=1))
                        continue
                    lin = holder["lin"]
                    OUT.append((label, "lin_snap", enc(lin.subset_sizes), lin.number_of_players,
                                enc(lin.observation_space.low), enc(lin.observation_space.high),
                                int(lin.action_space.n)))
                    attempt(label + "/lin_bad_shape", lambda: lin._sum_values_of_the_same_size(np.zeros(1 + 2**n)))
                    for bad in (-1, n, n + 3, 1.5, "x", None, np.int64(n), np.int64(2), True, np.array([2]), np.array([1, 2]),
                                np.array(1), np.float64(2.0), (1, 2), 2**70, -0.0, float("nan")):
                        attempt(label + f"/lin_step_bad{bad!r}", lambda: lin.step(bad))
                    attempt(label + "/lin_step_kw", lambda: lin.step(coalition_size=2))
                    attempt(label + "/lin_reset0", lambda: lin.reset())
                    run_ops(label, env, lin, op_rng, 14)
                    snapshot(label + "/snap1", env)
                    OUT.append((label, "lin_rng", lin.rng.bit_generator.state["state"]["state"]))
                    attempt(label + "/pickle_lin", lambda: pickle.dumps(
                        (lin.subset_sizes, lin.number_of_players, lin.rng.bit_generator.state)))
    # full-play episodes with the limit: reset, then step until done.
    for n in (3, 4, 5):
        for limit in (None, 1, 3, 100):
            gen_rng = np.random.default_rng([n, 5])
            incomplete = IncompleteCooperativeGame(n, compute_bounds_superadditive)
            env = ICG_Gym(incomplete, lambda: factory_generator(n, gen_rng, bounds_computer=compute_bounds_superadditive),
                          [Coalition(2**i) for i in range(n)], compute_exploitability, limit)
            lin = ICG_Gym_Linear(env, np.random.default_rng(n))
            for episode in range(3):
                attempt(f"ep/n{n}/l{limit}/{episode}/reset", lambda: lin.reset())
                for t in range(2**n):
                    if env.done:
                        break
                    masks = lin.action_masks()
                    size = int(np.flatnonzero(masks)[t % int(masks.sum())])
                    attempt(f"ep/n{n}/l{limit}/{episode}/{t}/step{size}", lambda: lin.step(size))
                    attempt(f"ep/n{n}/l{limit}/{episode}/{t}/done", lambda: (env.done, lin.done, lin.reward, lin.state))
                snapshot(f"ep/n{n}/l{limit}/{episode}/snap", env)
    OUT.append(("count", len(OUT)))
    with open(sys.argv[1], "wb") as f:
        pickle.dump(OUT, f, protocol=4)


main()
'''


def run(tree: str, driver: str, out: str) -> None:
    env = dict(os.environ, PYTHONPATH=tree, OMP_NUM_THREADS="1", PYTHONHASHSEED="0", PYTHONDONTWRITEBYTECODE="1")
    subprocess.run([PYTHON, driver, out], check=True, env=env, cwd=os.path.dirname(driver))


def main() -> int:
    tmp = tempfile.mkdtemp(prefix="y03_equiv_")
    try:
        orig = os.path.join(tmp, "orig")
        os.mkdir(orig)
        archive = subprocess.run(["git", "archive", "HEAD", "incomplete_cooperative"], cwd=WORKTREE,
                                 check=True, stdout=subprocess.PIPE).stdout
        subprocess.run(["tar", "-x", "-C", orig], input=archive, check=True)
        driver = os.path.join(tmp, "driver.py")
        with open(driver, "w") as f:
            f.write(DRIVER)
        out_a, out_b = os.path.join(tmp, "orig.pkl"), os.path.join(tmp, "new.pkl")
        run(orig, driver, out_a)
        run(WORKTREE, driver, out_b)
        with open(out_a, "rb") as fa, open(out_b, "rb") as fb:
            a, b = fa.read(), fb.read()
        if a == b:
            import pickle
            records = pickle.loads(a)
            excs = sum(1 for r in records if len(r) == 2 and isinstance(r[1], tuple) and r[1][0] == "exc")
            print(f"IDENTICAL: {len(records)} records ({excs} exceptional), {len(a)} bytes")
            return 0
        import pickle
        ra, rb = pickle.loads(a), pickle.loads(b)
        print(f"DIFFERENT: {len(ra)} vs {len(rb)} records")
        for x, y in zip(ra, rb):
            if pickle.dumps(x, protocol=4) != pickle.dumps(y, protocol=4):
                print("first difference:\n  orig:", repr(x)[:600], "\n  new: ", repr(y)[:600])
                return 1
        if len(ra) != len(rb):
            return 1
        # only the pickle memo layout differed; every record is byte-identical on its own
        print(f"IDENTICAL record by record: {len(ra)} records")
        return 0
    finally:
        shutil.rmtree(tmp, ignore_errors=True)


if __name__ == "__main__":
    sys.exit(main())
