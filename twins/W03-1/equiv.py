"""Differential test for patch_1 (bounds.py: NamedTuple coalition structure, registry filled by a loop).

Run with cwd=/tmp/wt12/W03.  The ORIGINAL package is exported from git HEAD into a temporary directory; the same
workload is run in two separate interpreter processes (original / refactored) and the pickled records are compared
exactly (dtype, shape, bits with equal_nan, exception type and message, order of results).
"""
import os
import pickle
import subprocess
import sys
import tempfile

import numpy as np

WORKTREE = os.getcwd()


# --------------------------------------------------------------------------------------------------------------- worker
def _exc(fn):
    try:
        return ("ok", fn())
    except BaseException as e:  # noqa
        return ("exc", type(e).__name__, str(e))


def _random_game(mod_game, Coalition, computer, n, rng, kind):
    game = mod_game.IncompleteCooperativeGame(n, computer)
    size = 2**n
    if kind == "int":
        values = rng.integers(0, 50, size=size).astype(float)
    elif kind == "float":
        values = rng.random(size) * 10
    elif kind == "superadd_int":
        w = rng.integers(0, 6, size=n)
        values = np.array([sum(w[i] for i in range(n) if c >> i & 1) ** 2 for c in range(size)], dtype=float)
    else:  # superadditive float
        w = rng.random(n)
        values = np.array([sum(w[i] for i in range(n) if c >> i & 1) ** 1.5 for c in range(size)], dtype=float)
    values[0] = 0
    known = rng.random(size) < rng.choice([0.1, 0.3, 0.6, 0.9])
    mode = rng.integers(0, 10)
    known[0] = True
    known[size - 1] = True
    for i in range(n):
        known[2**i] = True
    if mode == 0:  # sometimes drop a singleton (reference asserts, cached does not)
        known[2**int(rng.integers(n))] = False
    if mode == 1:  # sometimes the grand coalition is unknown -> AssertionError everywhere
        known[size - 1] = False
    ids = [int(i) for i in np.flatnonzero(known)]
    game.set_known_values(values[ids], [Coalition(i) for i in ids])
    return game, values, known


def _snapshot(game):
    return (game.get_lower_bounds().copy(), game.get_upper_bounds().copy(), game.are_values_known().copy(),
            game._values.copy())


def workload():
    from functools import partial

    import incomplete_cooperative.bounds as bounds
    import incomplete_cooperative.game as mod_game
    from incomplete_cooperative.coalitions import Coalition
    from incomplete_cooperative.run.model import ModelInstance
    records = []
    # --- the registry: order of the keys, kind of the entries
    reg = []
    for key, val in bounds.BOUNDS.items():
        if isinstance(val, partial):
            reg.append((key, "partial", val.func.__name__, val.args, dict(val.keywords)))
        else:
            reg.append((key, "function", val.__name__))
    records.append(("registry", reg))
    records.append(("module-leak", [x for x in ("i", "_repetitions", "_i") if hasattr(bounds, x)]))
    records.append(("registry-pickles", [len(pickle.dumps(v)) > 0 for v in bounds.BOUNDS.values()]))
    # --- the memoised structure, interleaved player counts, repeated calls
    for n in [3, 5, 2, 4, 3, 6, 1, 5, 2, 7, 0]:
        st = bounds._get_sub_super_coalition_structure(n)
        again = bounds._get_sub_super_coalition_structure(n)
        a, b, c = st  # positional unpacking must keep working
        records.append(("structure", n, isinstance(st, tuple), len(st), st is again,
                        [np.asarray(x).copy() for x in st], [st[0] is a, st[1] is b, st[2] is c],
                        [x.dtype.str for x in st], [x.shape for x in st]))
    records.append(("structure-bad", _exc(lambda: bounds._get_sub_super_coalition_structure(-1)),
                    _exc(lambda: bounds._get_sub_super_coalition_structure([2]))))
    # --- the computers
    cases = 0
    for seed in range(40):
        rng = np.random.default_rng(1000 + seed)
        for n in [4, 2, 5, 3, 6 if seed % 8 == 0 else 3]:
            for kind in ["int", "float", "superadd_int", "superadd_float"]:
                state = rng.bit_generator.state
                for key, computer in bounds.BOUNDS.items():
                    if key in ("sam_apx_100", "sam_apx_1000") and (n > 4 or seed % 4):
                        continue
                    if key == "sam_apx_10" and n > 5:
                        continue
                    rng.bit_generator.state = state  # the same game for every registry entry
                    game, values, known = _random_game(mod_game, Coalition, computer, n, rng, kind)
                    # stale junk in the bounds of the unknown coalitions
                    junk = rng.normal(size=2**n) * 100
                    game.set_lower_bounds(junk)
                    game.set_upper_bounds(junk[::-1].copy())
                    rec = [("case", seed, n, kind, key)]
                    rec.append(_exc(lambda: (game.compute_bounds(), _snapshot(game))[1]))
                    rec.append(_exc(lambda: (game.compute_bounds(), _snapshot(game))[1]))  # repeated invocation
                    # reveal / unreveal with recomputation
                    unknown = [int(i) for i in np.flatnonzero(~game.are_values_known())]
                    for c in unknown[:3]:
                        game.reveal_value(values[c], Coalition(c))
                        rec.append(_exc(lambda: (game.compute_bounds(), _snapshot(game))[1]))
                        game.unreveal_value(Coalition(c))
                        rec.append(_exc(lambda: (game.compute_bounds(), _snapshot(game))[1]))
                    # direct call of the function (not through the game)
                    rec.append(_exc(lambda: (computer(game), _snapshot(game))[1]))
                    records.append(rec)
                    cases += 1
    # --- selection through the model instance (run/model.py), interleaved sizes in one process
    for seed in range(6):
        for n in [4, 3, 5, 3]:
            for key in ["superadditive", "superadditive_cached", "sam_apx_1", "sam_apx_10"]:
                inst = ModelInstance(number_of_players=n, game_class=key, game_generator="factory", seed=seed,
                                     run_steps_limit=4)
                env = inst.get_env()
                rec = [("env", seed, n, key, env.incomplete_game._bounds_computer is bounds.BOUNDS[key])]
                obs, _ = env.reset()
                rec.append((obs.copy(), _snapshot(env.incomplete_game)))
                done = False
                while not done:
                    action = int(np.flatnonzero(env.action_masks())[0])
                    obs, reward, done, _, info = env.step(action)
                    rec.append((obs.copy(), reward, done, info, _snapshot(env.incomplete_game)))
                records.append(rec)
                cases += 1
    records.append(("cases", cases))
    return records


# --------------------------------------------------------------------------------------------------------------- driver
def same(a, b, path="root"):
    if type(a) is not type(b):
        return f"{path}: type {type(a).__name__} != {type(b).__name__} ({a!r} vs {b!r})"
    if isinstance(a, np.ndarray):
        if a.dtype != b.dtype or a.shape != b.shape:
            return f"{path}: dtype/shape {a.dtype}{a.shape} != {b.dtype}{b.shape}"
        if a.dtype.kind in "fc":
            ok = np.array_equal(a, b, equal_nan=True) and np.array_equal(np.signbit(a), np.signbit(b))
        else:
            ok = np.array_equal(a, b)
        return None if ok else f"{path}: arrays differ\n{a}\n{b}"
    if isinstance(a, (list, tuple)):
        if len(a) != len(b):
            return f"{path}: len {len(a)} != {len(b)}"
        for i, (x, y) in enumerate(zip(a, b)):
            r = same(x, y, f"{path}[{i}]")
            if r:
                return r
        return None
    if isinstance(a, dict):
        if list(a.keys()) != list(b.keys()):
            return f"{path}: keys {list(a)} != {list(b)}"
        for k in a:
            r = same(a[k], b[k], f"{path}[{k!r}]")
            if r:
                return r
        return None
    if isinstance(a, (float, np.floating)):
        ok = (a == b) or (a != a and b != b)
        return None if ok else f"{path}: {a!r} != {b!r}"
    return None if a == b else f"{path}: {a!r} != {b!r}"


def run_worker(root, out):
    env = dict(os.environ, OMP_NUM_THREADS="1", MKL_NUM_THREADS="1", PYTHONDONTWRITEBYTECODE="1", PYTHONHASHSEED="0")
    subprocess.run([sys.executable, os.path.abspath(__file__), "--worker", root, out], check=True, env=env, cwd=root)
    with open(out, "rb") as f:
        return pickle.load(f)


def main():
    if len(sys.argv) > 1 and sys.argv[1] == "--worker":
        sys.path.insert(0, sys.argv[2])
        import incomplete_cooperative
        assert os.path.dirname(os.path.dirname(os.path.abspath(incomplete_cooperative.__file__))) == \
            os.path.abspath(sys.argv[2]), incomplete_cooperative.__file__
        with open(sys.argv[3], "wb") as f:
            pickle.dump(workload(), f)
        return 0
    with tempfile.TemporaryDirectory(prefix="equiv_W03_") as tmp:
        orig_root = os.path.join(tmp, "orig")
        os.makedirs(orig_root)
        archive = subprocess.run(["git", "-C", WORKTREE, "archive", "HEAD", "incomplete_cooperative"],
                                 check=True, capture_output=True).stdout
        subprocess.run(["tar", "-x", "-C", orig_root], input=archive, check=True)
        res_orig = run_worker(orig_root, os.path.join(tmp, "orig.pkl"))
        res_new = run_worker(WORKTREE, os.path.join(tmp, "new.pkl"))
    if len(res_orig) != len(res_new):
        print("DIFFERENT: number of records", len(res_orig), len(res_new))
        return 1
    for i, (a, b) in enumerate(zip(res_orig, res_new)):
        r = same(a, b, f"record[{i}]")
        if r:
            print("DIFFERENT")
            print("first counterexample:", a[0] if isinstance(a, (list, tuple)) else a)
            print(r)
            return 1
    print(f"EQUIVALENT ({res_orig[-1][1]} cases, {len(res_orig)} records)")
    return 0


if __name__ == "__main__":
    sys.exit(main())
