"""Differential equivalence check for refactoring 1 (coalitions.py / coalition_ids.py).

Runs the same driver against the ORIGINAL sources (git HEAD) and the refactored
worktree in two separate interpreters and compares the canonicalised outcomes exactly.
"""
import hashlib
import os
import pickle
import subprocess
import sys
import tempfile

WT = "/tmp/wt_x4_X08"
PY = "/venv/bin/python"

DRIVER = r'''
import itertools, pickle, sys, enum, types
import numpy as np

OUT = []


def canon(o, depth=0):
    if depth > 8:
        return "<deep>"
    if isinstance(o, np.ndarray):
        return "nd(%s,%s,%s)" % (o.dtype.str, o.shape, np.ascontiguousarray(o).tobytes().hex())
    if isinstance(o, np.generic):
        return "npg(%s,%s)" % (o.dtype.str, o.tobytes().hex())
    if isinstance(o, bool):
        return "bool(%s)" % o
    if isinstance(o, enum.Enum):
        return "enum(%s,%r)" % (type(o).__name__, o.value)
    if isinstance(o, int):
        return "int(%d)" % o
    if isinstance(o, float):
        return "float(%s)" % o.hex()
    if o is None:
        return "None"
    if isinstance(o, str):
        return "str(%r)" % o
    if isinstance(o, BaseException):
        return "EXC(%s:%s)" % (type(o).__name__, o)
    if type(o).__name__ == "Coalition" or (hasattr(o, "id") and type(o).__mro__[-2].__name__ == "Coalition"):
        return "%s<%s>" % (type(o).__name__, canon(o.id, depth + 1))
    if isinstance(o, tuple):
        return "tuple(" + ",".join(canon(x, depth + 1) for x in o) + ")"
    if isinstance(o, list):
        return "list(" + ",".join(canon(x, depth + 1) for x in o) + ")"
    if isinstance(o, (set, frozenset)):
        return "set(" + ",".join(sorted(canon(x, depth + 1) for x in o)) + ")"
    if isinstance(o, dict):
        return "dict(" + ",".join(canon(k, depth + 1) + ":" + canon(v, depth + 1) for k, v in o.items()) + ")"
    if isinstance(o, (types.GeneratorType, map, filter, itertools.chain, range)):
        name = type(o).__name__
        items = []
        try:
            for x in o:
                items.append(canon(x, depth + 1))
        except BaseException as e:  # exception raised while iterating is part of the outcome
            items.append(canon(e))
        return "iter[%s](" % name + ",".join(items) + ")"
    return "obj(%s)" % type(o).__name__


def rec(tag, fn, *args):
    try:
        r = fn(*args)
        OUT.append(tag + " -> " + canon(r))
    except BaseException as e:
        OUT.append(tag + " !! " + canon(e))


from incomplete_cooperative import coalitions as C
from incomplete_cooperative import coalition_ids as CI
from incomplete_cooperative.coalitions import Coalition
from incomplete_cooperative.game import IncompleteCooperativeGame
from incomplete_cooperative.bounds import BOUNDS, _get_sub_super_coalition_structure
from incomplete_cooperative.game_properties import is_superadditive, is_monotone_decreasing, is_sam
from incomplete_cooperative.supermodularity_check import check_supermodularity
import operator


class SubCoalition(Coalition):
    pass


class IntE(enum.IntEnum):
    A = 0
    B = 2


class MyInt(int):
    pass


class Idish:
    def __init__(self, id):
        self.id = id

    def __repr__(self):  # no memory address in messages
        return "Idish(%r)" % (self.id,)


class OnlyN:
    number_of_players = 3

    def __repr__(self):
        return "OnlyN()"


OPS = {
    "and": operator.and_, "or": operator.or_, "sub": operator.sub, "add": operator.add,
    "eq": operator.eq, "ne": operator.ne, "contains": lambda a, b: b in a,
    "rcontains": lambda a, b: a in b if isinstance(b, Coalition) else None,
    "disjoint": C.disjoint_coalitions,
}

# --- object based: all pairs for n <= 6 -------------------------------------------------
for n in range(1, 7):
    coals = [Coalition(i) for i in range(2**n)]
    for a in coals:
        rec("len %d %d" % (n, a.id), len, a)
        rec("players %d %d" % (n, a.id), lambda x: list(x.players), a)
        rec("playerstype %d %d" % (n, a.id), lambda x: type(x.players).__name__, a)
        rec("hash %d %d" % (n, a.id), hash, a)
        rec("inv %d %d" % (n, a.id), a.inverted, n)
        rec("repr %d %d" % (n, a.id), repr, a)
        rec("subs %d %d" % (n, a.id), C.get_sub_coalitions, a)
        rec("supers %d %d" % (n, a.id), C.get_super_coalitions, a, n)
        rec("excl %d %d" % (n, a.id), C.exclude_coalition, a, coals)
        for b in coals:
            for name, op in OPS.items():
                rec("%s %d %d %d" % (name, n, a.id, b.id), op, a, b)

# --- odd right-hand sides: every branch of the touched dispatches --------------------------
ODD = [0, 1, 2, 5, -1, True, False, MyInt(1), IntE.B, np.int64(1), np.int32(2), 1.5, "a", None, [1], (0,),
       SubCoalition(3), Idish(3), Idish("x"), Coalition(1.0), Coalition(np.int64(5)), Coalition("z"), 70]
for aid in [0, 1, 5, 6, 15, 2**40 + 3]:
    for A in (Coalition(aid), SubCoalition(aid), Coalition(np.int64(aid))):
        for j, b in enumerate(ODD):
            for name, op in OPS.items():
                rec("odd %s %s %d %d" % (name, type(A).__name__ + type(A.id).__name__, aid, j), op, A, b)
            rec("odd req %d %d" % (aid, j), operator.eq, b, A)
            rec("odd rand %d %d" % (aid, j), lambda x, y: x & y, b, A)

# --- from_players -------------------------------------------------------------------
FP = [[], [0], [1, 1, 1], [3, 0, 2], (5, 5, 0), {1, 4}, frozenset({2}), range(4), range(0), iter([1, 2]),
      (i for i in [0, 3, 3]), np.array([0, 2]), np.array([1, 1], dtype=np.int8), np.array([], dtype=int), [np.int64(3), 1],
      [True, 2], [1.0, 2], [-1], [0.5], "ab", None, 3, [[1]], [None], ["a"], {0: 1, 3: 2}, [10, 70, 100], [MyInt(2), IntE.B],
      np.array([[0, 1]]), [2**10]]
for j, p in enumerate(FP):
    rec("from_players %d" % j, Coalition.from_players, p)
    rec("from_players/sub %d" % j, SubCoalition.from_players, FP[j] if not hasattr(p, "__next__") else [])
import random
rng = random.Random(7)
for t in range(600):
    k = rng.randrange(0, 12)
    pl = [rng.randrange(0, 14) for _ in range(k)]
    rec("from_players rnd %d" % t, Coalition.from_players, pl)
    rec("from_players rnd np %d" % t, Coalition.from_players, np.array(pl, dtype=np.int64))
    rec("player_to_coalition %d" % t, C.player_to_coalition, k)

# --- functions taking Game | int ---------------------------------------------------------
def mk_game(n, seed, computer="superadditive_cached", known_frac=1.0):
    r = np.random.default_rng(seed)
    g = IncompleteCooperativeGame(n, BOUNDS[computer]) if computer else IncompleteCooperativeGame(n)
    vals = r.integers(0, 20, 2**n).astype(float)
    vals[0] = 0
    if known_frac >= 1.0:
        g.set_values(vals)
    else:
        ids = [i for i in range(2**n) if r.random() < known_frac or i in (0, 2**n - 1) or bin(i).count("1") == 1]
        g.set_known_values(vals[ids], [Coalition(i) for i in ids])
    return g

PL = [0, 1, 2, 3, 5, True, MyInt(2), np.int64(3), np.int32(2), 2.0, "x", None, -1, OnlyN(), Coalition(3),
      mk_game(1, 0), mk_game(3, 1), mk_game(4, 2, None), mk_game(3, 3, "superadditive", 0.5)]
for j, p in enumerate(PL):
    rec("grand %d" % j, C.grand_coalition, p)
    rec("all %d" % j, C.all_coalitions, p)
    rec("alltype %d" % j, lambda q: type(C.all_coalitions(q)).__name__, p)
    rec("minimal %d" % j, C.minimal_game_coalitions, p)
    if hasattr(p, "is_value_known"):
        rec("known %d" % j, C.get_known_coalitions, p)

# --- id based ------------------------------------------------------------------------
for n in range(1, 9):
    rec("ids all %d" % n, CI.get_all_coalitions, n)
    rec("ids all np %d" % n, CI.get_all_coalitions, np.int64(n))
    for c in list(range(2**n)) + [2**n, 2**n + 3, -1, -2]:
        for wrap in (int, np.int32, np.int64):
            cc = wrap(c)
            for fname in ("players", "get_size", "sub_coalitions", "super_coalitions"):
                if wrap is not int and n > 6 and fname in ("players", "get_size"):
                    continue
                rec("ids %s %d %d %s" % (fname, n, c, wrap.__name__), getattr(CI, fname), cc, n)
for n in (3, 4):
    for c in (1, 5, 2**n):
        for fname in ("players", "get_size", "sub_coalitions", "super_coalitions"):
            rec("ids npn %s %d %d" % (fname, n, c), getattr(CI, fname), c, np.int64(n))
            rec("ids badn %s %d %d" % (fname, n, c), getattr(CI, fname), c, "n")
            rec("ids arr %s %d %d" % (fname, n, c), getattr(CI, fname), np.array([c, 1]), n)
            rec("ids float %s %d %d" % (fname, n, c), getattr(CI, fname), float(c), n)
for n in range(1, 7):
    rec("structure %d" % n, _get_sub_super_coalition_structure, n)

# --- cross-representation agreement and downstream users ---------------------------------------
for n in range(1, 8):
    for c in range(2**n):
        rec("xsub %d %d" % (n, c), lambda: sorted(x.id for x in C.get_sub_coalitions(Coalition(c))) == sorted(CI.sub_coalitions(c, n).tolist()))
        rec("xsup %d %d" % (n, c), lambda: sorted(x.id for x in C.get_super_coalitions(Coalition(c), n)) == sorted(CI.super_coalitions(c, n).tolist()))
for seed in range(40):
    for n in (2, 3, 4):
        g = mk_game(n, seed)
        rec("superadd %d %d" % (n, seed), is_superadditive, g)
        rec("monodec %d %d" % (n, seed), is_monotone_decreasing, g)
        rec("sam %d %d" % (n, seed), is_sam, g)
        rec("supermod %d %d" % (n, seed), check_supermodularity, g)
        for name in ("superadditive", "superadditive_cached", "sam_apx_1", "sam_apx_10"):
            h = mk_game(n, seed, name, 0.5)
            rec("bounds %s %d %d" % (name, n, seed), lambda: (h.compute_bounds(), h._values.copy())[1])

with open(sys.argv[1], "wb") as f:
    pickle.dump(OUT, f, protocol=4)
'''


def main() -> int:
    with tempfile.TemporaryDirectory() as tmp:
        orig = os.path.join(tmp, "orig")
        os.mkdir(orig)
        subprocess.run("git archive HEAD incomplete_cooperative | tar -x -C %s" % orig, shell=True, check=True, cwd=WT)
        driver = os.path.join(tmp, "driver.py")
        with open(driver, "w") as f:
            f.write(DRIVER)
        outs = {}
        for label, root in (("orig", orig), ("new", WT)):
            out = os.path.join(tmp, label + ".pkl")
            env = dict(os.environ, PYTHONPATH=root, PYTHONHASHSEED="0", OMP_NUM_THREADS="1", PYTHONDONTWRITEBYTECODE="1")
            p = subprocess.run([PY, "-W", "ignore", driver, out], cwd=tmp, env=env, capture_output=True, text=True)
            if p.returncode != 0:
                print(label, "driver failed:\n", p.stdout[-2000:], p.stderr[-4000:])
                return 2
            with open(out, "rb") as f:
                outs[label] = f.read()
        a, b = pickle.loads(outs["orig"]), pickle.loads(outs["new"])
        print("records: orig=%d new=%d  exceptions=%d" % (len(a), len(b), sum(" !! " in x for x in a)))
        print("sha256 orig", hashlib.sha256(outs["orig"]).hexdigest())
        print("sha256 new ", hashlib.sha256(outs["new"]).hexdigest())
        bad = [(i, x, y) for i, (x, y) in enumerate(zip(a, b)) if x != y]
        for i, x, y in bad[:10]:
            print("DIFF #%d\n  orig: %s\n  new : %s" % (i, x[:400], y[:400]))
        if len(a) != len(b) or bad or outs["orig"] != outs["new"]:
            print("NOT EQUIVALENT (%d differing records)" % len(bad))
            return 1
        print("EQUIVALENT")
        return 0


if __name__ == "__main__":
    sys.exit(main())
