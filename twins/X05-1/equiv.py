#!/usr/bin/env python
"""Differential equivalence check for patch_1 (incomplete_cooperative/normalize.py).

The ORIGINAL package is taken from git (`git archive HEAD incomplete_cooperative`) into a temporary directory,
the REFACTORED package is the worktree as it is now (patch applied) -- or, with `--patch FILE`, a second
`git archive` copy to which FILE is applied.  The same worker runs in two separate interpreters (one per tree),
pickles everything it observed, and the two pickles have to be byte-equal.

    /venv/bin/python equiv_1.py [--worktree /tmp/wt_x4_X05] [--patch /tmp/twin_out/X05/patch_1.diff]

Exit status 0 iff everything is identical.
"""
import argparse
import os
import pickle
import subprocess
import sys
import tempfile

WORKTREE_DEFAULT = "/tmp/wt_x4_X05"

WORKER = r'''
import os
import pickle
import sys
import warnings

import numpy as np

warnings.simplefilter("ignore")

import incomplete_cooperative
from incomplete_cooperative import normalize as N
from incomplete_cooperative.bounds import BOUNDS
from incomplete_cooperative.coalitions import (Coalition, all_coalitions, grand_coalition,
                                               minimal_game_coalitions, player_to_coalition)
from incomplete_cooperative.exploitability import compute_exploitability
from incomplete_cooperative.game import IncompleteCooperativeGame
from incomplete_cooperative.generators import GENERATORS
from incomplete_cooperative.graph_game import GraphCooperativeGame
from incomplete_cooperative.icg_gym import ICG_Gym

# some registered generators draw from an unseeded module level generator: make it deterministic
import incomplete_cooperative.generators as _generators_module
_generators_module._gen.bit_generator.state = np.random.default_rng(20240229).bit_generator.state

RECORDS = []


def enc(obj):
    """Turn an observation into plain, deterministically picklable data (bit exact for floats and arrays)."""
    if isinstance(obj, np.ndarray):
        if obj.dtype == object:
            return ("ndobj", obj.shape, [enc(x) for x in obj.ravel().tolist()])
        return ("nd", obj.dtype.str, obj.shape, np.ascontiguousarray(obj).tobytes())
    if isinstance(obj, np.generic):
        return ("np", type(obj).__name__, obj.dtype.str, obj.tobytes())
    if isinstance(obj, bool) or obj is None or isinstance(obj, (int, str, bytes)):
        return (type(obj).__name__, obj)
    if isinstance(obj, float):
        return ("float", obj.hex())
    if isinstance(obj, Coalition):
        return ("Coalition", enc(obj.id))
    if isinstance(obj, BaseException):
        return ("exc", type(obj).__name__, str(obj))
    if isinstance(obj, (tuple, list)):
        return (type(obj).__name__, [enc(x) for x in obj])
    if isinstance(obj, dict):
        return ("dict", [(enc(k), enc(v)) for k, v in obj.items()])
    if isinstance(obj, IncompleteCooperativeGame):
        return ("ICG", obj.number_of_players, enc(obj._values))
    if isinstance(obj, GraphCooperativeGame):
        return ("GCG", obj.number_of_players, enc(obj._graph_matrix))
    if isinstance(obj, DictGame):
        return ("DictGame", obj.number_of_players, [enc(v) for v in obj.table], list(obj.log))
    return ("obj", type(obj).__module__, type(obj).__qualname__)


def record(label, fn, *state):
    """Call `fn`, store its result (or exception) and the state of the objects it may have touched."""
    try:
        out = ("ok", enc(fn()))
    except BaseException as e:  # noqa
        out = ("raised", enc(e))
    RECORDS.append((label, out, [enc(s) for s in state]))


class DictGame:
    """A minimal mutable game that is neither a table game of the library nor a graph game."""

    def __init__(self, values, wrap=lambda x: x):
        self.table = [wrap(v) for v in values]
        self.number_of_players = int(np.log2(len(self.table)))
        self.log = []

    def get_value(self, coalition):
        self.log.append(("get", coalition.id))
        return self.table[coalition.id]

    def get_values(self, coalitions=None):
        ids = range(len(self.table)) if coalitions is None else [c.id for c in coalitions]
        self.log.append(("gets", tuple(ids)))
        return np.array([np.asarray(self.table[i]).reshape(-1)[0] for i in ids], dtype=np.float64)

    def set_value(self, value, coalition):
        self.log.append(("set", coalition.id))
        self.table[coalition.id] = value

    def set_values(self, values, coalitions=None):
        raise NotImplementedError

    def copy(self):
        return DictGame(list(self.table))

    def __add__(self, other):
        raise NotImplementedError


def full_icg(values):
    n = int(np.log2(len(values)))
    game = IncompleteCooperativeGame(n)
    game.set_values(np.asarray(values))
    return game


def superadditive_values(n, rng, integer=False):
    """Values of a random superadditive game: a convex function of a positive additive measure plus additive part."""
    weights = rng.integers(1, 9, n) if integer else rng.random(n) + 0.05
    extra = rng.integers(0, 5, n) if integer else rng.random(n)
    vals = np.zeros(2**n)
    for c in all_coalitions(n):
        players = list(c.players)
        m = sum(weights[p] for p in players)
        vals[c.id] = (m * m if len(players) > 1 else 0) + sum(extra[p] for p in players)
    return vals


def additive_values(n, rng, integer=False):
    weights = rng.integers(-5, 9, n).astype(float) if integer else rng.normal(size=n) * rng.choice([1e-3, 1, 1e6])
    vals = np.zeros(2**n)
    for c in all_coalitions(n):
        vals[c.id] = sum(weights[p] for p in c.players)
    return vals


def roundtrip(label, game):
    """normalize, look, denormalize with the returned info, look again."""
    info = []
    record(label + "/norminfo", lambda: N._get_norminfo(game), game)
    record(label + "/normalize", lambda: info.append(N.normalize_game(game)) or info[-1], game)
    record(label + "/values", lambda: game.get_values(), game)
    if info:
        record(label + "/denormalize", lambda: N.denormalize_game(game, info[-1]), game)
        record(label + "/values2", lambda: game.get_values(), game)


# ---------------------------------------------------------------- table games
for n in range(1, 7):
    for seed in range(12):
        rng = np.random.default_rng(1000 * n + seed)
        roundtrip(f"icg/super/{n}/{seed}", full_icg(superadditive_values(n, rng)))
        roundtrip(f"icg/superint/{n}/{seed}", full_icg(superadditive_values(n, rng, integer=True)))
        roundtrip(f"icg/random/{n}/{seed}", full_icg(np.concatenate([[0.0], rng.normal(size=2**n - 1) * 10])))
        roundtrip(f"icg/additive/{n}/{seed}", full_icg(additive_values(n, rng)))
        roundtrip(f"icg/additiveint/{n}/{seed}", full_icg(additive_values(n, rng, integer=True)))
        # nearly additive: an additive game with a tiny / moderate bump on the grand coalition
        vals = additive_values(n, rng)
        vals[-1] += rng.choice([1e-18, 1e-15, 1e-12, 1e-9, 1e-3]) * max(1.0, abs(vals).max())
        roundtrip(f"icg/nearlyadditive/{n}/{seed}", full_icg(vals))
        # special values
        vals = superadditive_values(n, rng)
        vals[rng.integers(0, 2**n)] = rng.choice([np.inf, -np.inf, np.nan])
        roundtrip(f"icg/nonfinite/{n}/{seed}", full_icg(vals))
    roundtrip(f"icg/zero/{n}", full_icg(np.zeros(2**n)))
    roundtrip(f"icg/fresh/{n}", IncompleteCooperativeGame(n))  # only the empty coalition known: raises

# partially known games (exceptional paths, at several depths) and games with bounds
for n in range(2, 6):
    for seed in range(10):
        rng = np.random.default_rng(77 * n + seed)
        vals = superadditive_values(n, rng)
        for kind in ("minimal", "no_grand", "no_singleton", "random_known"):
            game = IncompleteCooperativeGame(n, BOUNDS["superadditive"])
            if kind == "minimal":
                known = list(minimal_game_coalitions(n))
            elif kind == "no_grand":
                known = [c for c in all_coalitions(n) if c.id != 2**n - 1]
            elif kind == "no_singleton":
                known = [c for c in all_coalitions(n) if c.id != 2**int(rng.integers(0, n))]
            else:
                known = [c for c in all_coalitions(n) if rng.random() < 0.7]
            game.set_known_values(vals[[c.id for c in known]], known)
            try:
                game.compute_bounds()
            except AssertionError:  # the bounds need the minimal information
                pass
            roundtrip(f"icg/partial/{kind}/{n}/{seed}", game)
            record(f"icg/partial/{kind}/{n}/{seed}/_normalize_icg", lambda: N._normalize_icg(game), game)
            record(f"icg/partial/{kind}/{n}/{seed}/denorm",
                   lambda: N.denormalize_game(game, (np.float64(2.5), rng.random(n))), game)

# the private table normaliser on its own, on games with diverging bounds that are all "known"
for n in range(1, 6):
    for seed in range(10):
        rng = np.random.default_rng(5 * n + seed)
        game = full_icg(superadditive_values(n, rng))
        game._values[:, 2] += rng.random(2**n)
        record(f"icg/private/{n}/{seed}", lambda: N._normalize_icg(game), game)

# ---------------------------------------------------------------- graph games
for n in range(1, 8):
    for seed in range(12):
        rng = np.random.default_rng(31 * n + seed)
        matrices = {
            "uniform": rng.random((n, n)),
            "int": rng.integers(0, 6, (n, n)),
            "signed": rng.normal(size=(n, n)),
            "zero": np.zeros((n, n)),
            "sparse": rng.random((n, n)) * (rng.random((n, n)) < 0.3),
        }
        signed_zero = np.triu(rng.integers(-3, 4, (n, n)).astype(float), 1)
        if n >= 3:
            signed_zero[0, 1] -= signed_zero.sum()  # grand coalition worth exactly zero with non-zero weights
        matrices["signed_zero"] = signed_zero
        for name, matrix in matrices.items():
            graph = GraphCooperativeGame(matrix)
            roundtrip(f"graph/{name}/{n}/{seed}", graph)
            # the tabulated form of the same game
            roundtrip(f"graph_tab/{name}/{n}/{seed}", full_icg(GraphCooperativeGame(matrix).get_values()))
            # a graph game whose matrix was filled below the diagonal behind the constructor's back
            graph = GraphCooperativeGame(matrix)
            graph._graph_matrix = np.array(matrix, dtype=np.float64)
            record(f"graph/dirty/{name}/{n}/{seed}", lambda: N._normalize_graph_game(graph), graph)
            record(f"graph/dirty/{name}/{n}/{seed}/again", lambda: N.normalize_game(graph), graph)
            record(f"graph/dirty/{name}/{n}/{seed}/denorm",
                   lambda: N._denormalize_graph_game(graph, (3, None)), graph)
        # a non-square matrix installed by hand: identical failure (or success) point
        for shape in ((n, n + 1), (n + 1, n), (n, max(n - 1, 1))):
            graph = GraphCooperativeGame(rng.random((n, n)))
            graph._graph_matrix = rng.random(shape)
            record(f"graph/nonsquare/{n}/{seed}/{shape}", lambda: N._normalize_graph_game(graph), graph)
            record(f"graph/nonsquare/{n}/{seed}/{shape}/normalize", lambda: N.normalize_game(graph), graph)

# ---------------------------------------------------------------- registered generators
for name in sorted(GENERATORS):
    if name.startswith("convex"):
        continue  # needs pyfmtools, which is not installed
    for n in (3, 4, 5):
        for seed in range(3):
            rng = np.random.default_rng(seed)
            try:
                game = GENERATORS[name](n, rng)
            except BaseException as e:  # noqa
                RECORDS.append((f"gen/{name}/{n}/{seed}", ("generator raised", enc(e)), []))
                continue
            roundtrip(f"gen/{name}/{n}/{seed}", game)
            if isinstance(game, GraphCooperativeGame):
                roundtrip(f"gen_tab/{name}/{n}/{seed}", full_icg(game.get_values()))

# ---------------------------------------------------------------- other game types and malformed infos
for n in range(1, 5):
    for seed in range(6):
        rng = np.random.default_rng(9 * n + seed)
        vals = superadditive_values(n, rng)
        for wname, wrap in (("npfloat", np.float64), ("pyfloat", float), ("array1", lambda v: np.array([v])),
                            ("int", lambda v: int(v))):
            other = DictGame(vals, wrap)
            record(f"other/{wname}/{n}/{seed}/normalize", lambda: N.normalize_game(other), other)  # TypeError
            info = (np.float64(rng.random() + 0.5), rng.random(n))
            record(f"other/{wname}/{n}/{seed}/denormalize", lambda: N.denormalize_game(other, info), other)
            record(f"other/{wname}/{n}/{seed}/denormalize_int", lambda: N.denormalize_game(other, (2, list(range(n)))),
                   other)
        for iname, info in (("triple", (1.0, np.zeros(n), 3)), ("short", (2.0, np.zeros(max(n - 1, 0)))),
                            ("none", None), ("scalar", 3.0), ("str", ("a", np.zeros(n))),
                            ("list", [np.float64(3), list(rng.random(n))])):
            game = full_icg(vals)
            record(f"malformed/icg/{iname}/{n}/{seed}", lambda: N.denormalize_game(game, info), game)
            graph = GraphCooperativeGame(rng.random((n, n)))
            record(f"malformed/graph/{iname}/{n}/{seed}", lambda: N.denormalize_game(graph, info), graph)
            other = DictGame(vals)
            record(f"malformed/other/{iname}/{n}/{seed}", lambda: N.denormalize_game(other, info), other)
for bad in (None, 3, "game", object(), [1, 2]):
    record(f"notagame/{type(bad).__name__}/normalize", lambda: N.normalize_game(bad))
    record(f"notagame/{type(bad).__name__}/denormalize", lambda: N.denormalize_game(bad, (1.0, np.zeros(2))))

# ---------------------------------------------------------------- through the gym (reset normalises a copy)
for gname in ("factory", "graph", "xos", "k_budget_generator", "additive_like"):
    for n in (3, 4):
        for seed in range(3):
            rng = np.random.default_rng(seed + 17)
            if gname == "additive_like":
                def generator(rng=rng, n=n):
                    return full_icg(additive_values(n, rng))
            else:
                def generator(rng=rng, n=n, gname=gname):
                    return GENERATORS[gname](n, rng)
            incomplete = IncompleteCooperativeGame(n, BOUNDS["superadditive"])
            env = ICG_Gym(incomplete, generator, minimal_game_coalitions(n), compute_exploitability)
            record(f"gym/{gname}/{n}/{seed}/init", lambda: (env.state, env.reward, env.done), env.normalized_game,
                   env.full_game, incomplete)
            actions = np.random.default_rng(seed).permutation(len(env.explorable_coalitions))
            for a in actions[:6]:
                record(f"gym/{gname}/{n}/{seed}/step{a}", lambda: env.step(int(a)), env.normalized_game, incomplete)
            record(f"gym/{gname}/{n}/{seed}/reset", lambda: env.reset(seed=seed)[0], env.normalized_game,
                   env.full_game, incomplete)

with open(sys.argv[1], "wb") as f:
    pickle.dump({"where": os.path.dirname(os.path.abspath(incomplete_cooperative.__file__)), "records": RECORDS}, f,
                protocol=4)
'''


def _run(cmd, **kw):
    return subprocess.run(cmd, check=True, **kw)


def _archive(worktree, dest):
    os.makedirs(dest)
    tar = subprocess.run(["git", "-C", worktree, "archive", "HEAD", "incomplete_cooperative"],
                         check=True, stdout=subprocess.PIPE).stdout
    _run(["tar", "-x", "-C", dest], input=tar)


def _worker(root, worker, out, cwd):
    env = dict(os.environ, PYTHONPATH=root, PYTHONHASHSEED="0", OMP_NUM_THREADS="1", PYTHONDONTWRITEBYTECODE="1")
    _run([sys.executable, worker, out], env=env, cwd=cwd)
    with open(out, "rb") as f:
        raw = f.read()
    return pickle.loads(raw)


def main():
    ap = argparse.ArgumentParser()
    ap.add_argument("--worktree", default=WORKTREE_DEFAULT)
    ap.add_argument("--patch", default=None, help="apply this diff to a second copy instead of using the worktree")
    args = ap.parse_args()
    worktree = os.path.abspath(args.worktree)
    with tempfile.TemporaryDirectory(prefix="equiv1_") as tmp:
        base = os.path.join(tmp, "base")
        _archive(worktree, base)
        if args.patch:
            new = os.path.join(tmp, "new")
            _archive(worktree, new)
            _run(["git", "apply", os.path.abspath(args.patch)], cwd=new)
        else:
            new = worktree
        worker = os.path.join(tmp, "worker.py")
        with open(worker, "w") as f:
            f.write(WORKER)
        a = _worker(base, worker, os.path.join(tmp, "a.pkl"), tmp)
        b = _worker(new, worker, os.path.join(tmp, "b.pkl"), tmp)
        for res, root in ((a, base), (b, new)):
            expected = os.path.join(os.path.realpath(root), "incomplete_cooperative")
            if os.path.realpath(res["where"]) != expected:
                print(f"worker imported the package from {res['where']}, expected {expected}")
                return 2
        same_sources = subprocess.run(["diff", "-rq", "-x", "__pycache__", os.path.join(base, "incomplete_cooperative"),
                                       os.path.join(new, "incomplete_cooperative")],
                                      stdout=subprocess.PIPE).returncode == 0
        if same_sources:
            print("WARNING: the two trees have identical sources (is the patch applied?)")
        ra, rb = a["records"], b["records"]
        bad = 0
        if len(ra) != len(rb):
            print(f"different number of records: {len(ra)} vs {len(rb)}")
            bad += 1
        for x, y in zip(ra, rb):
            if pickle.dumps(x, protocol=4) != pickle.dumps(y, protocol=4):
                bad += 1
                if bad <= 5:
                    print("DIFFERENCE at", x[0], "\n  original:  ", repr(x)[:300], "\n  refactored:", repr(y)[:300])
        if pickle.dumps(ra, protocol=4) != pickle.dumps(rb, protocol=4) and not bad:
            bad += 1
        raised = sum(1 for r in ra if r[1][0] == "raised")
        print(f"{len(ra)} records compared ({raised} of them exceptions), {bad} differences")
        return 1 if bad else 0


if __name__ == "__main__":
    sys.exit(main())
