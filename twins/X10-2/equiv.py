#!/venv/bin/python
"""Differential equivalence check for patch_2.diff (incomplete_cooperative/coalitions.py).

ORIGINAL = `git archive HEAD incomplete_cooperative` of the worktree, unpacked into a temporary directory.
REFACTORED = the worktree as it is (patch applied).  If the worktree has no local change in the package and
`patch_2.diff` lies next to this script, the refactored tree is built in the temporary directory instead
(HEAD export + `git apply`), so the script can also be run on a clean checkout.

Both trees run the same driver in separate interpreters; the canonicalised outcomes are compared exactly.
Exit status 0 iff everything is identical.
"""
import os
import pickle
import subprocess
import sys
import tempfile
from pathlib import Path

K = 2
WT = Path(os.environ.get("TWIN_WORKTREE", "/tmp/wt_x4_X10"))
PY = "/venv/bin/python"
HERE = Path(__file__).resolve().parent

DRIVER = r'''
import itertools, os, pickle, sys
from pathlib import Path
from unittest.mock import MagicMock, Mock

import numpy as np

out_file = sys.argv[1]
os.chdir(sys.argv[2])

import incomplete_cooperative.coalitions as co
import incomplete_cooperative.generators as gens
from incomplete_cooperative.bounds import BOUNDS
from incomplete_cooperative.coalitions import (Coalition, all_coalitions, disjoint_coalitions, exclude_coalition,
                                               get_known_coalitions, get_sub_coalitions, get_super_coalitions,
                                               grand_coalition, minimal_game_coalitions, player_to_coalition)
from incomplete_cooperative.game import IncompleteCooperativeGame
from incomplete_cooperative.generators import GENERATORS
from incomplete_cooperative.graph_game import GraphCooperativeGame
from incomplete_cooperative.protocols import Game

RESULTS = []


def canon(x):
    if isinstance(x, Coalition):
        return ("Coalition", type(x).__name__, canon(x.id), canon(vars(x)))
    if isinstance(x, np.ndarray):
        return ("nd", str(x.dtype), x.shape, x.tobytes())
    if isinstance(x, np.generic):
        return ("np", str(x.dtype), x.tobytes())
    if isinstance(x, float):
        return ("f", x.hex())
    if isinstance(x, (bool, int, str, bytes, type(None))):
        return (type(x).__name__, x)
    if isinstance(x, (list, tuple)):
        return (type(x).__name__, [canon(y) for y in x])
    if isinstance(x, dict):
        return ("dict", [(canon(k), canon(v)) for k, v in x.items()])
    if isinstance(x, BaseException):
        return ("exc", type(x).__module__ + "." + type(x).__qualname__, str(x))
    if isinstance(x, (IncompleteCooperativeGame,)):
        return ("ICG", x.number_of_players, canon(x._values))
    if isinstance(x, GraphCooperativeGame):
        return ("GG", x.number_of_players, canon(x._graph_matrix))
    if type(x).__name__ in ("map", "generator", "filter", "chain"):
        return ("iter", type(x).__name__)
    return ("repr", type(x).__name__, repr(x) if not isinstance(x, (Mock,)) else "mock")


def record(label, fn, *args, **kwargs):
    try:
        res = ("ok", canon(fn(*args, **kwargs)))
    except BaseException as e:  # noqa
        res = canon(e)
    RESULTS.append((label, res))


def drain(fn, *args, **kwargs):
    """Call, note the kind of iterable returned (laziness), then exhaust it."""
    it = fn(*args, **kwargs)
    kind = type(it).__name__
    return [kind] + list(it)


class HasId:
    """Duck-typed stand-in: anything with an `id` is accepted by the set operations."""

    def __init__(self, id):
        self.id = id

    def __repr__(self):
        return f"HasId({self.id})"


class IntSub(int):
    pass


class CoalSub(Coalition):
    pass


class CountingId:
    """Counts how often `id` is read (order/number of attribute reads is observable)."""

    def __init__(self, id):
        self._id, self.reads = id, 0

    @property
    def id(self):
        self.reads += 1
        return self._id


class FakeInt:
    """isinstance(FakeInt(), int) is True through the `__class__` fallback."""

    @property
    def __class__(self):
        return int

    def __repr__(self):
        return "FakeInt()"


class FakeCoalition:
    """isinstance(FakeCoalition(), Coalition) is True through the `__class__` fallback."""

    id = 5

    @property
    def __class__(self):
        return Coalition

    def __repr__(self):
        return "FakeCoalition()"


spec_int = FakeInt()
spec_coal = FakeCoalition()

N = 6
OPERANDS = (
    [("c%d" % i, Coalition(i)) for i in range(2**N)]
    + [("i%d" % i, i) for i in range(-2, N + 3)]
    + [("True", True), ("False", False),
       ("np64", np.int64(2)), ("np32", np.int32(1)), ("npu8", np.uint8(3)), ("npbool", np.bool_(True)),
       ("f1", 1.0), ("nan", float("nan")), ("str", "1"), ("none", None), ("list", [1]), ("tuple", (1,)),
       ("hasid3", HasId(3)), ("hasid_np", HasId(np.int64(3))), ("hasid_str", HasId("x")), ("intsub", IntSub(2)),
       ("coalsub", CoalSub(5)), ("npcoal", Coalition(np.int64(5))), ("big", 70), ("bigc", Coalition(2**70 + 5)),
       ("spec_int", spec_int), ("spec_coal", spec_coal), ("cls", Coalition), ("nested", Coalition(Coalition(1)))]
)

# ---------------------------------------------------------------------------------------------------------------
# A. every binary operation of Coalition against every operand
# ---------------------------------------------------------------------------------------------------------------
LEFTS = [Coalition(i) for i in range(2**N)] + [Coalition(np.int64(11)), CoalSub(9), Coalition(2**65 + 3)]
OPS = {
    "contains": lambda a, b: b in a,
    "contains_raw": lambda a, b: a.__contains__(b),
    "and": lambda a, b: a & b,
    "or": lambda a, b: a | b,
    "sub": lambda a, b: a - b,
    "add": lambda a, b: a + b,
    "eq": lambda a, b: a == b,
    "eq_raw": lambda a, b: a.__eq__(b),
    "ne": lambda a, b: a != b,
    "req": lambda a, b: b == a,
    "disjoint": lambda a, b: disjoint_coalitions(a, b),
}
for li, left in enumerate(LEFTS):
    for name, operand in OPERANDS:
        if li % 5 and name.startswith("c") and name[1:].isdigit() and int(name[1:]) % 3:
            continue  # thin out the coalition x coalition square a little
        for opname, op in OPS.items():
            record(f"A.{li}.{opname}.{name}", op, left, operand)

# number of reads of `.id` of a duck-typed right operand
for opname in ("contains", "and", "or"):
    for left_id in (0, 5, 7):
        c = CountingId(5)
        record(f"A.reads.{opname}.{left_id}", OPS[opname], Coalition(left_id), c)
        RESULTS.append((f"A.reads.{opname}.{left_id}.n", c.reads))

# ---------------------------------------------------------------------------------------------------------------
# B. unary things, hashing, containers, pickling
# ---------------------------------------------------------------------------------------------------------------
import copy
for i in list(range(2**N)) + [2**40 + 1]:
    c = Coalition(i)
    record(f"B.len.{i}", len, c)
    record(f"B.players.{i}", lambda: list(c.players))
    record(f"B.hash.{i}", hash, c)
    record(f"B.pickle.{i}", pickle.dumps, c, 4)
    record(f"B.inverted.{i}", c.inverted, N)
    record(f"B.from_players.{i}", Coalition.from_players, list(c.players) * 2)
    record(f"B.sub.{i}", drain, get_sub_coalitions, c)
    record(f"B.super.{i}", drain, get_super_coalitions, c, N)
    record(f"B.exclude.{i}", drain, exclude_coalition, c, all_coalitions(N))
    record(f"B.p2c.{i}", player_to_coalition, i % 9)
record("B.set", lambda: sorted(x.id for x in {Coalition(i % 7) for i in range(40)}))
record("B.dictkey", lambda: {Coalition(3): 1}[Coalition(3)])
record("B.in_list", lambda: [Coalition(i) in [Coalition(1), Coalition(4), 2] for i in range(6)])
record("B.index", lambda: [Coalition(1), Coalition(4)].index(Coalition(4)))
record("B.count_int", lambda: [1, 2, 4].count(Coalition(2)))
record("B.deepcopy", copy.deepcopy, Coalition(9))
record("B.inverted_bad", Coalition(3).inverted, "x")

# ---------------------------------------------------------------------------------------------------------------
# C. functions taking `Game | int`
# ---------------------------------------------------------------------------------------------------------------
icg = IncompleteCooperativeGame(4)
gg = GraphCooperativeGame(np.arange(9.0).reshape(3, 3))
mock_game = MagicMock()
mock_game.number_of_players = 3


class NotQuiteGame:
    number_of_players = 2


class FullDuckGame:
    number_of_players = 2

    def get_values(self, coalitions=None): ...
    def get_value(self, coalition): ...
    def copy(self): ...
    def __add__(self, other): ...


PLAYERS_ARGS = [("i%d" % i, i) for i in range(0, 8)] + [
    ("neg", -1), ("true", True), ("np64", np.int64(3)), ("np32", np.int32(3)), ("f3", 3.0), ("str", "3"),
    ("none", None), ("icg", icg), ("gg", gg), ("mock", mock_game), ("notquite", NotQuiteGame()),
    ("duck", FullDuckGame()), ("intsub", IntSub(3)), ("list", [3]), ("coal", Coalition(3))]
for name, arg in PLAYERS_ARGS:
    record(f"C.isgame.{name}", isinstance, arg, Game)
    record(f"C.grand.{name}", grand_coalition, arg)
    record(f"C.all.{name}", drain, all_coalitions, arg)
    record(f"C.all.lazy.{name}", all_coalitions, arg)
    record(f"C.minimal.{name}", drain, minimal_game_coalitions, arg)
    record(f"C.minimal.lazy.{name}", minimal_game_coalitions, arg)
    record(f"C.minimal.first2.{name}", lambda: list(itertools.islice(minimal_game_coalitions(arg), 2)))
for n in range(1, 6):
    g = IncompleteCooperativeGame(n)
    rng = np.random.default_rng(n)
    known = [Coalition(int(i)) for i in rng.choice(2**n, size=2**n // 2, replace=False)]
    g.set_values(rng.random(len(known)), known)
    record(f"C.known.{n}", drain, get_known_coalitions, g)
record("C.known.bad", get_known_coalitions, 3)

# ---------------------------------------------------------------------------------------------------------------
# D. the consumers: every generator of the registry (membership tests `owner in coalition`), bounds
# ---------------------------------------------------------------------------------------------------------------
def reseed_module_rng(seed):
    gens._gen.bit_generator.state = np.random.PCG64(seed).state
    gens._LAST_OWNER = seed % 3


for name in GENERATORS:
    if name == "convex":
        continue
    for n in (3, 4, 5):
        for seed in (0, 1):
            reseed_module_rng(1000 + seed)
            rng = np.random.default_rng(seed)
            record(f"D.{name}.{n}.{seed}", GENERATORS[name], n, rng)
            RESULTS.append((f"D.{name}.{n}.{seed}.rng", repr(rng.bit_generator.state)))
            RESULTS.append((f"D.{name}.{n}.{seed}.modrng", repr(gens._gen.bit_generator.state)))
for owner in [0, 2, True, np.int64(1), np.int32(0), 1.0, None, 7, -1, "a"]:
    for cheer in [1, np.int64(2), None, 0]:
        record(f"D.cheer.{owner!r}.{cheer!r}", gens.factory_cheerleader_generator, 4, np.random.default_rng(3),
               owner=owner, cheerleader=cheer)
    record(f"D.factory.{owner!r}", gens.factory_generator, 4, np.random.default_rng(3), owner=owner)
for bname, bounds in BOUNDS.items():
    for n in (3, 4):
        for seed in range(3):
            g = gens.factory_generator(n, np.random.default_rng(seed), bounds_computer=bounds)
            g.set_known_values(g.get_values(minimal_game_coalitions(g)), minimal_game_coalitions(g))

            def run():
                g.compute_bounds()
                return g
            record(f"D.bounds.{bname}.{n}.{seed}", run)

with open(out_file, "wb") as f:
    pickle.dump(RESULTS, f, protocol=4)
'''


def sh(*cmd, **kw):
    return subprocess.run(cmd, check=True, **kw)


def export_head(dest: Path) -> None:
    dest.mkdir(parents=True)
    archive = subprocess.Popen(["git", "-C", str(WT), "archive", "HEAD", "incomplete_cooperative"],
                               stdout=subprocess.PIPE)
    sh("tar", "-x", "-C", str(dest), stdin=archive.stdout)
    if archive.wait() != 0:
        raise SystemExit("git archive failed")


def main() -> int:
    with tempfile.TemporaryDirectory(prefix=f"equiv{K}_") as tmp_s:
        tmp = Path(tmp_s)
        orig = tmp / "orig"
        export_head(orig)
        dirty = subprocess.run(["git", "-C", str(WT), "diff", "--quiet", "HEAD", "--", "incomplete_cooperative"]
                               ).returncode != 0
        patch = HERE / f"patch_{K}.diff"
        if dirty:
            new = WT
        elif patch.exists():
            new = tmp / "new"
            export_head(new)
            sh("git", "apply", "--directory", str(new.relative_to(tmp)), str(patch), cwd=tmp)
            print(f"worktree clean: refactored tree built from {patch}")
        else:
            raise SystemExit("worktree has no local change and there is no patch to apply")
        (tmp / f"driver_X10_{K}.py").write_text(DRIVER)
        outs = []
        for label, root in (("orig", orig), ("new", new)):
            work = tmp / f"work_{label}"
            work.mkdir()
            env = dict(os.environ, PYTHONPATH=str(root), PYTHONHASHSEED="0", MPLBACKEND="Agg",
                       OMP_NUM_THREADS="1", PYTHONDONTWRITEBYTECODE="1", SOURCE_DATE_EPOCH="0")
            out = tmp / f"{label}.pkl"
            proc = subprocess.run([PY, str(tmp / f"driver_X10_{K}.py"), str(out), str(work)], env=env, cwd=work,
                                  capture_output=True, text=True)
            sys.stderr.write(proc.stderr[-1500:] if os.environ.get("TWIN_VERBOSE") else "")
            if proc.returncode != 0:
                print(proc.stdout[-3000:], proc.stderr[-6000:])
                print(f"driver failed on the {label} tree")
                return 2
            outs.append(out.read_bytes())
        a, b = (pickle.loads(x) for x in outs)
        bad = 0
        if len(a) != len(b):
            print(f"different number of outcomes: {len(a)} vs {len(b)}")
            bad += 1
        for (la, ra), (lb, rb) in zip(a, b):
            if la != lb or ra != rb:
                bad += 1
                if bad <= 10:
                    print(f"MISMATCH {la} / {lb}:\n   orig: {str(ra)[:600]}\n   new:  {str(rb)[:600]}")
        n_exc = sum(1 for _, r in a if isinstance(r, tuple) and r and r[0] == "exc")
        print(f"{len(a)} outcomes compared ({n_exc} of them exceptions), {bad} mismatches; "
              f"pickles byte-equal: {outs[0] == outs[1]}")
        return 0 if bad == 0 and repr(a) == repr(b) else 1


if __name__ == "__main__":
    sys.exit(main())
