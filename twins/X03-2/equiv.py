"""Differential equivalence check for patch 2 (solvers: staticmethod, flag -> function object, EAFP choice).

Usage: /venv/bin/python equiv_2.py            (driver: exits 0 iff original == refactored)
       /venv/bin/python equiv_2.py --worker OUT   (internal)
The refactored tree is the worktree (override with EQUIV_NEW_ROOT for development).
"""
import hashlib
import io
import os
import pickle
import subprocess
import sys
import tarfile
import tempfile

WORKTREE = "/tmp/wt_x4_X03"
PYTHON = "/venv/bin/python"


def arr(a):
    """Exact, NaN-aware, dtype- and shape-aware description of an array."""
    import numpy as np
    a = np.asarray(a)
    return (str(a.dtype), a.shape, hashlib.sha256(np.ascontiguousarray(a).tobytes()).hexdigest())


class RecordingGym:
    """Forward everything to a real env and log the order of the accesses."""

    def __init__(self, env, log):
        object.__setattr__(self, "_env", env)
        object.__setattr__(self, "_log", log)

    def __getattr__(self, name):
        env, log = self._env, self._log
        value = getattr(env, name)
        if callable(value) and name in ("action_masks", "step", "unstep", "get_wrapper_attr", "reset"):
            def call(*args, **kwargs):
                log.append(("call", name, repr(args), repr(sorted(kwargs.items()))))
                return value(*args, **kwargs)
            return call
        log.append(("get", name))
        return value


class FourTupleGym:
    """A gym whose step is malformed (gymnasium < 0.26 style four-tuple)."""

    def __init__(self, env):
        self.env = env

    def action_masks(self):
        return self.env.action_masks()

    def step(self, action):
        return self.env.step(action)[:4]

    def unstep(self, action):
        return self.env.unstep(action)

    @property
    def explorable_coalitions(self):
        return self.env.explorable_coalitions


def worker(out_path):
    import inspect
    import itertools
    import warnings
    import numpy as np
    warnings.simplefilter("ignore")
    import incomplete_cooperative
    from incomplete_cooperative import solvers as solvers_pkg
    from incomplete_cooperative.evaluation import evaluate
    from incomplete_cooperative.protocols import Solver
    from incomplete_cooperative.run.model import ModelInstance
    from incomplete_cooperative.solvers import SOLVERS, GreedySolver, LargestSolver, RandomSolver
    from incomplete_cooperative.solvers import greedy as greedy_mod
    from incomplete_cooperative.solvers import largest_coalition as largest_mod
    from incomplete_cooperative.solvers import random as random_mod

    assert os.path.dirname(os.path.dirname(incomplete_cooperative.__file__)) == os.environ["EXPECT_ROOT"], \
        incomplete_cooperative.__file__

    out = []

    def rec(tag, fn):
        try:
            out.append((tag, "ok", fn()))
        except BaseException as e:  # noqa
            out.append((tag, "exc", type(e).__name__, str(e)))

    def snap(env):
        return (arr(env.incomplete_game._values), env.steps_taken, arr(env.full_game.get_values()),
                arr(env.normalized_game.get_values()), repr(env.np_random.bit_generator.state),
                [c.id for c in env.explorable_coalitions], [c.id for c in env.initially_known_coalitions],
                arr(env.action_masks()), arr(env.state), pickle.dumps(env.reward), bool(env.done))

    def light_snap(env):
        return (env.incomplete_game._values.tobytes(), env.steps_taken, env.full_game.get_values().tobytes(),
                env.normalized_game.get_values().tobytes(), repr(env.np_random.bit_generator.state),
                [c.id for c in env.explorable_coalitions], [c.id for c in env.initially_known_coalitions])

    def make_solvers(instance, full=True):
        return [(name, SOLVERS[name](instance)) for name in SOLVERS] + [] if not full else [
            (name, SOLVERS[name](instance)) for name in SOLVERS] + [
            ("greedy-noinst", GreedySolver()), ("largest-noinst", LargestSolver()),
            ("greedy-kw", GreedySolver(None, worst=False)), ("greedy-truthy", GreedySolver(worst=1)),
            ("greedy-falsy", GreedySolver(worst="")), ("greedy-npbool", GreedySolver(worst=np.bool_(True)))]

    # --- static facts -----------------------------------------------------------------------------------------------
    out.append(("SOLVERS keys", list(SOLVERS)))
    out.append(("SOLVERS pickles", [pickle.dumps(v, protocol=4) for v in SOLVERS.values()]))
    out.append(("package names", sorted(n for n in vars(solvers_pkg) if not n.startswith("_"))))
    for mod in (greedy_mod, largest_mod, random_mod):
        out.append(("module names", mod.__name__, sorted(
            n for n in vars(mod) if not n.startswith("_") and n not in ("Callable", "Iterable"))))
    for cls in (GreedySolver, LargestSolver, RandomSolver):
        out.append(("class", cls.__module__, cls.__qualname__, pickle.dumps(cls, protocol=4),
                    sorted(n for n in dir(cls) if not n.startswith("_")),
                    [(n, [(p.name, str(p.kind), repr(p.default)) for p in
                          inspect.signature(getattr(cls, n)).parameters.values()])
                     for n in ("__init__", "next_step", "after_reset")],
                    issubclass(cls, Solver) if getattr(Solver, "_is_runtime_protocol", False) else None))
    rec(("RandomSolver()",), lambda: RandomSolver())
    rec(("GreedySolver(1,2,3)",), lambda: GreedySolver(1, 2, 3))
    rec(("LargestSolver(1,2)",), lambda: LargestSolver(1, 2))
    rec(("GreedySolver(foo=1)",), lambda: GreedySolver(foo=1))

    inst0 = ModelInstance(number_of_players=4, seed=11, unique_name="u")
    for name, s in make_solvers(inst0):
        out.append(("instance", name, pickle.dumps(s, protocol=4), sorted(vars(s)),
                    pickle.dumps(s.next_step, protocol=4), pickle.dumps(s.after_reset, protocol=4),
                    isinstance(s, Solver) if getattr(Solver, "_is_runtime_protocol", False) else None,
                    s.after_reset.__name__, s.next_step.__name__))

    # --- walks ------------------------------------------------------------------------------------------------------
    generators = ["factory", "noisy_factory", "noisy_factory_exp", "factory_cheerleader", "noisy_factory_square",
                  "predictible_factory", "graph_random"]
    n_next = 0

    def visit(tag, env, solvers):
        """At the current state, ask every solver; record choice, untouched env and order of accesses."""
        nonlocal n_next
        out.append((tag, "full state", snap(env)))
        for name, s in solvers:
            log = []
            before = light_snap(env)
            rec((tag, name, "next_step"), lambda: s.next_step(RecordingGym(env, log)))
            after = light_snap(env)
            out.append((tag, name, "env", before == after, after, log))
            n_next += 1
        out.append((tag, "full state after", snap(env)))

    def walk(tag, instance, actions_order, solvers, reset_first=False):
        env = instance.get_env()
        if reset_first:
            env.reset()
        for name, s in solvers:
            log = []
            rec((tag, name, "after_reset"), lambda: s.after_reset(RecordingGym(env, log)))
            out.append((tag, name, "after_reset log", log, repr(env.np_random.bit_generator.state)))
        visit(tag + ("s0",), env, solvers)
        for k, a in enumerate(actions_order):
            rec(tag + ("step", k), lambda: [pickle.dumps(x, protocol=4) if not isinstance(x, np.ndarray) else arr(x)
                                            for x in env.step(a)])
            visit(tag + ("s", k + 1), env, solvers)
        return env

    # n = 3: every reachable state along every order of reveals
    for gen in generators:
        for seed in (0, 1):
            for gc in ("superadditive_cached", "superadditive"):
                if gc == "superadditive" and seed:
                    continue
                for perm in itertools.permutations(range(3)):
                    inst = ModelInstance(number_of_players=3, game_class=gc, game_generator=gen, seed=seed,
                                         unique_name="u")
                    rec(("walk3", gen, seed, gc, perm, "outer"),
                        lambda: (walk(("walk3", gen, seed, gc, perm), inst, perm,
                                      make_solvers(inst, full=(seed == 0 and gc == "superadditive_cached"
                                                               and perm[0] == 0))), None)[1])

    # n = 4, 5: sampled walks, to the very end for n = 4 (the last state has no valid action)
    wrng = np.random.default_rng(77)
    for n, walks, length in ((4, 8, 10), (5, 3, 6)):
        for w in range(walks):
            gen = generators[w % len(generators)]
            seed = int(wrng.integers(1000))
            order = [int(x) for x in wrng.permutation(2**n - 2 - n)[:length]]
            inst = ModelInstance(number_of_players=n, game_class="superadditive_cached", game_generator=gen,
                                 seed=seed, unique_name="u", linear=False)
            rec(("walk", n, w, "outer"), lambda: (walk(("walk", n, w, gen), inst, order, make_solvers(inst),
                                                       reset_first=bool(w % 2)), None)[1])

    # persistent random solvers: the draws continue one stream, re-seeded only by after_reset
    for seed in (0, 5, 123456789):
        inst = ModelInstance(number_of_players=4, game_class="superadditive_cached", seed=seed, unique_name="u")
        s = RandomSolver(inst)
        env = inst.get_env()
        seq = []
        for k in range(40):
            if k == 20:
                s.after_reset(env)
            if k % 7 == 6:
                a = s.next_step(env)
                if env.action_masks()[a]:
                    env.step(a)
            seq.append(s.next_step(env))
        out.append(("random stream", seed, seq, pickle.dumps(s, protocol=4), snap(env)))
    s = RandomSolver(None)
    env = ModelInstance(number_of_players=4, seed=3, unique_name="u").get_env()
    s.after_reset(env)
    out.append(("random none", [s.next_step(env) for _ in range(10)]))

    # --- exceptional inputs -----------------------------------------------------------------------------------------
    inst = ModelInstance(number_of_players=3, game_class="superadditive_cached", seed=4, unique_name="u")
    env = inst.get_env()
    for name, s in make_solvers(inst):
        rec(("bad gym object", name), lambda: s.next_step(object()))
        rec(("bad gym None", name), lambda: s.next_step(None))
        env4 = inst.get_env()
        rec(("four-tuple step", name), lambda: s.next_step(FourTupleGym(env4)))
        out.append(("four-tuple env", name, snap(env4)))
        rec(("after_reset None", name), lambda: s.after_reset(None))
        rec(("after_reset noargs", name), lambda: s.after_reset())
    for a in (0, 1, 2):
        env.step(a)
    for name, s in make_solvers(inst):
        rec(("nothing left", name), lambda: s.next_step(env))
        rec(("nothing left again", name), lambda: s.next_step(env))
        out.append(("nothing left: solver and env state", name, pickle.dumps(s, protocol=4), snap(env)))
    rec(("_next_action_value via instance",), lambda: pickle.dumps(
        GreedySolver()._next_action_value(inst.get_env(), 1), protocol=4))
    rec(("_next_action_value revealed",), lambda: GreedySolver()._next_action_value(env, 1))
    out.append(("after failed value", snap(env)))

    # --- through evaluate, in this process and in workers (the bound methods are pickled) ----------------------------
    for name in SOLVERS:
        for processes in (1, 2):
            for n, reps, limit in ((4, 3, 5), (3, 4, 3)):
                def run():
                    inst = ModelInstance(number_of_players=n, game_class="superadditive_cached", seed=21,
                                         game_generator="noisy_factory", run_steps_limit=limit, unique_name="u")
                    solver = SOLVERS[name](inst)
                    e, a = evaluate(solver.next_step, inst.get_env, reps, limit, inst.gap_function_callable,
                                    processes, solver.after_reset)
                    return arr(e), arr(a)
                rec(("evaluate", name, processes, n), run)

    out.append(("next_step calls", n_next))
    with open(out_path, "wb") as f:
        pickle.dump(out, f, protocol=4)


def main():
    new_root = os.environ.get("EQUIV_NEW_ROOT", WORKTREE)
    with tempfile.TemporaryDirectory(prefix="equiv2_") as tmp:
        orig = os.path.join(tmp, "orig")
        os.mkdir(orig)
        data = subprocess.run(["git", "archive", "HEAD", "incomplete_cooperative"], cwd=WORKTREE,
                              check=True, capture_output=True).stdout
        tarfile.open(fileobj=io.BytesIO(data)).extractall(orig)
        outs, procs = {}, {}
        for name, root in (("orig", orig), ("new", new_root)):
            env = dict(os.environ, PYTHONPATH=root, EXPECT_ROOT=root, PYTHONHASHSEED="0", OMP_NUM_THREADS="1",
                       PYTHONDONTWRITEBYTECODE="1")
            outs[name] = os.path.join(tmp, name + ".pkl")
            procs[name] = subprocess.Popen([PYTHON, os.path.abspath(__file__), "--worker", outs[name]],
                                           env=env, cwd=tmp)
        for name, p in procs.items():
            if p.wait() != 0:
                print(f"worker {name} failed")
                return 2
        ra, rb = (pickle.load(open(outs[k], "rb")) for k in ("orig", "new"))
        n_exc = sum(1 for x in ra if len(x) > 1 and x[1] == "exc")
        print(f"records: {len(ra)} vs {len(rb)}; exceptional outcomes in original: {n_exc}; "
              f"next_step calls: {ra[-1]}")
        if len(ra) != len(rb):
            print("DIFFERENT number of records")
            return 1
        bad = 0
        for x, y in zip(ra, rb):
            if pickle.dumps(x, protocol=4) != pickle.dumps(y, protocol=4):
                bad += 1
                if bad <= 10:
                    print("DIFF", x[0], "\n   orig:", repr(x[1:])[:400], "\n   new: ", repr(y[1:])[:400])
        if bad:
            print(f"{bad} differing records")
            return 1
        print("IDENTICAL")
        return 0


if __name__ == "__main__":
    if len(sys.argv) > 2 and sys.argv[1] == "--worker":
        worker(sys.argv[2])
    else:
        sys.exit(main())
