"""Differential test of refactoring 3: game_properties iterates over a generator of (coalition, sub-coalitions) NamedTuples.

Run with cwd=/tmp/wt12/W06.  Loads the ORIGINAL package from git HEAD under another package name and the refactored
package from the worktree and compares is_superadditive / is_monotone_decreasing / is_sam exactly (results, exceptions and
the sequence of accesses to the game object) on: every registry generator, random games with ties, games at the edge of
the relative tolerance, games with nan / inf, custom tolerances, graph games, and games outside the contract.
"""
import importlib
import os
import re
import subprocess
import sys
import tempfile
import warnings

import numpy as np

WT = os.getcwd()
ORIG_NAME = "icg_orig_w06_3"


def load_original(name: str):
    """Write the package as of HEAD into a temporary directory under the package name `name` and make it importable."""
    tmp = tempfile.mkdtemp(prefix="w06_orig_")
    files = subprocess.check_output(["git", "-C", WT, "ls-tree", "-r", "--name-only", "HEAD", "incomplete_cooperative"],
                                    text=True).split()
    for path in files:
        if not path.endswith(".py") or "/tests/" in path:
            continue
        source = subprocess.check_output(["git", "-C", WT, "show", f"HEAD:{path}"], text=True)
        source = re.sub(r"^(\s*(?:from|import)\s+)incomplete_cooperative\b", r"\g<1>" + name, source, flags=re.M)
        target = os.path.join(tmp, name, os.path.relpath(path, "incomplete_cooperative"))
        os.makedirs(os.path.dirname(target), exist_ok=True)
        with open(target, "w") as file:
            file.write(source)
    sys.path.insert(0, tmp)


class TracedGame:
    """A game given by its value vector that records every access made to it."""

    def __init__(self, number_of_players, values, fail_at_read=None):
        self._n, self._values, self.trace, self._fail_at_read = number_of_players, values, [], fail_at_read

    @property
    def number_of_players(self):
        self.trace.append("number_of_players")
        if self._fail_at_read is not None and self.trace.count("number_of_players") == self._fail_at_read:
            raise RuntimeError("number_of_players failed")
        return self._n

    def get_values(self, coalitions=None):
        self.trace.append(("get_values", coalitions))
        return self._values


def call(fn, *args, **kwargs):
    """Call, exceptions included; the type of the result matters too."""
    with warnings.catch_warnings():
        warnings.simplefilter("ignore")
        try:
            result = fn(*args, **kwargs)
            return ("ok", type(result).__name__, repr(result))
        except BaseException as error:  # noqa
            return ("raised", type(error).__name__, str(error).replace(ORIG_NAME, "PKG").replace(
                "incomplete_cooperative", "PKG"))


PREDICATES = ["is_superadditive", "is_monotone_decreasing", "is_sam"]
CASES = 0
TRUE_RESULTS = 0


def compare_on_values(orig, new, label, number_of_players, values, fail_at_read=None, **kwargs):
    """Run the predicates of both versions on a traced game with these values."""
    global CASES, TRUE_RESULTS
    for name in PREDICATES:
        if kwargs and name != "is_superadditive":
            continue
        game_orig = TracedGame(number_of_players, values, fail_at_read)
        game_new = TracedGame(number_of_players, values, fail_at_read)
        res_orig = call(getattr(orig, name), game_orig, **kwargs) + (game_orig.trace,)
        res_new = call(getattr(new, name), game_new, **kwargs) + (game_new.trace,)
        CASES += 1
        TRUE_RESULTS += res_orig[:3] == ("ok", "bool", "True")
        if res_orig != res_new:
            print("DIFFERENT:", label, name, "n =", number_of_players, "kwargs =", kwargs, "values =", values)
            print(" original:  ", res_orig)
            print(" refactored:", res_new)
            raise SystemExit(1)


def compare_on_game(orig, new, label, game_orig, game_new):
    """Run the predicates of each version on a game object of that version."""
    global CASES, TRUE_RESULTS
    for name in PREDICATES:
        res_orig = call(getattr(orig, name), game_orig)
        res_new = call(getattr(new, name), game_new)
        CASES += 1
        TRUE_RESULTS += res_orig[:3] == ("ok", "bool", "True")
        if res_orig != res_new:
            print("DIFFERENT:", label, name)
            print(" original:  ", res_orig)
            print(" refactored:", res_new)
            raise SystemExit(1)


def size_of(coalition_id: int) -> int:
    return bin(coalition_id).count("1")


def main() -> int:
    load_original(ORIG_NAME)
    sys.path.insert(0, WT)
    orig = importlib.import_module(ORIG_NAME + ".game_properties")
    new = importlib.import_module("incomplete_cooperative.game_properties")
    orig_gens = importlib.import_module(ORIG_NAME + ".generators")
    new_gens = importlib.import_module("incomplete_cooperative.generators")
    assert os.path.realpath(new.__file__).startswith(os.path.realpath(WT)), new.__file__
    assert ORIG_NAME in orig.__file__

    # --- random value vectors ------------------------------------------------------------------------------------------
    for number_of_players in range(0, 6):
        size = 2**number_of_players
        sizes = np.array([size_of(c) for c in range(size)], dtype=float)
        for seed in range(12):
            rng = np.random.default_rng([number_of_players, seed])
            vectors = {
                "small integers (many ties)": rng.integers(-2, 3, size).astype(float),
                "normal": rng.normal(size=size),
                "zero": np.zeros(size),
                # superadditive by construction: convex function of the size, scaled
                "convex in size": sizes**2 * rng.uniform(0.5, 2),
                "additive": np.array([sum(w for i, w in enumerate(rng.random(number_of_players)) if c >> i & 1)
                                      for c in range(size)], dtype=float),
                "negated additive maximum": -np.array(
                    [max([w for i, w in enumerate(rng.random(number_of_players)) if c >> i & 1], default=0.0)
                     for c in range(size)]),
                "integer dtype": rng.integers(-2, 3, size),
                "float32": rng.normal(size=size).astype(np.float32),
            }
            for label, values in vectors.items():
                values = values.copy()
                if seed % 2 == 0 and size:
                    values[0] = 0
                compare_on_values(orig, new, label, number_of_players, values)
            # at the edge of the relative tolerance: an additive game with one value pushed down a little
            base = vectors["additive"] * 1000 + sizes
            for relative in (0, 1e-12, 0.9e-9, 1e-9, 1.1e-9, 1e-8, 1e-6):
                for sign in (-1, 1):
                    values = base.copy()
                    index = int(rng.integers(size))
                    values[index] *= 1 + sign * relative
                    compare_on_values(orig, new, f"edge of tolerance {sign * relative}", number_of_players, values)
                    for kwargs in ({"rtol": 1e-6}, {"rtol": 0}, {"atol": 1e-5}, {"rtol": 1e-12, "atol": 1e-3}):
                        compare_on_values(orig, new, f"edge of tolerance {sign * relative}", number_of_players, values,
                                          **kwargs)
            # nan and inf
            for special in (np.nan, np.inf, -np.inf):
                values = vectors["convex in size"].copy()
                values[int(rng.integers(size))] = special
                compare_on_values(orig, new, f"special value {special}", number_of_players, values)

    # --- outside the contract: same exceptions, same accesses before them ---------------------------------------------
    odd = [
        ("values too short", 3, np.zeros(5)),
        ("values too long", 2, np.arange(16.0)),
        ("list of values", 2, [0.0, 1.0, 1.0, 3.0]),
        ("object dtype", 2, np.array([0, 1, 1, 3], dtype=object)),
        ("strings", 2, np.array(["a", "b", "c", "d"])),
        ("2-d values", 2, np.zeros((4, 2))),
        ("None values", 2, None),
        ("float player count", 2.0, np.zeros(4)),
        ("negative player count", -1, np.zeros(4)),
        ("None player count", None, np.zeros(4)),
        ("numpy player count", np.int64(3), -np.arange(8.0)),
        ("bool values", 2, np.array([False, True, True, True])),
    ]
    for label, number_of_players, values in odd:
        compare_on_values(orig, new, label, number_of_players, values)
    for fail_at_read in range(1, 12):
        compare_on_values(orig, new, f"number_of_players fails at read {fail_at_read}", 3,
                          np.array([size_of(c) for c in range(8)], dtype=float)**2, fail_at_read=fail_at_read)
        compare_on_values(orig, new, f"number_of_players fails at read {fail_at_read}", 3,
                          -np.array([size_of(c) for c in range(8)], dtype=float)**0.5, fail_at_read=fail_at_read)

    # --- every generator of the registry (they also call the predicates in their own assertions) -----------------------
    for key in orig_gens.GENERATORS:
        if key == "convex":  # needs pyfmtools, not installed
            continue
        for number_of_players in (3, 4, 5):
            for seed in (0, 1, 2):
                state = np.random.default_rng(7 * seed + number_of_players).bit_generator.state
                games = []
                for module in (orig_gens, new_gens):
                    module._gen.bit_generator.state = dict(state)
                    with warnings.catch_warnings():
                        warnings.simplefilter("ignore")
                        games.append(module.GENERATORS[key](number_of_players, np.random.default_rng(seed)))
                if not np.array_equal(games[0].get_values(), games[1].get_values(), equal_nan=True):
                    print("DIFFERENT: generator", key, number_of_players, seed)
                    return 1
                compare_on_game(orig, new, f"generator {key} n={number_of_players} seed={seed}", games[0], games[1])
                compare_on_game(orig, new, f"negated generator {key} n={number_of_players} seed={seed}",
                                -games[0], -games[1])

    print(f"{CASES} predicate calls compared ({TRUE_RESULTS} of them returned True)")
    print("EQUIVALENT")
    return 0


if __name__ == "__main__":
    sys.exit(main())
