"""Differential test for refactoring 1 (regret.py: NamedTuple `NodeChildren` + `_node_children`).

Run with cwd=/tmp/wt12/W09.  Loads the ORIGINAL package from `git show HEAD:<path>` into a temporary directory and the
refactored package (the dirty worktree, or HEAD + patch_1.diff when the worktree is clean) into another one, runs both
on the same inputs and compares every result bit for bit.
"""
import os
import shutil
import subprocess
import sys
import tempfile
from itertools import combinations
from pathlib import Path

os.environ.setdefault("OMP_NUM_THREADS", "1")
import numpy as np  # noqa: E402

K = 1
WT = os.getcwd()
OUT = os.path.dirname(os.path.abspath(__file__))
PKG = "incomplete_cooperative"


# ----------------------------------------------------------------------------------------------- harness
def export_head(dst: str) -> None:
    files = subprocess.check_output(["git", "-C", WT, "ls-tree", "-r", "--name-only", "HEAD", PKG], text=True)
    for f in files.splitlines():
        if not f or "/tests/" in f:
            continue
        data = subprocess.check_output(["git", "-C", WT, "show", f"HEAD:{f}"])
        p = os.path.join(dst, f)
        os.makedirs(os.path.dirname(p), exist_ok=True)
        with open(p, "wb") as fh:
            fh.write(data)


def make_refactored(dst: str) -> str:
    dirty = subprocess.run(["git", "-C", WT, "diff", "--quiet"]).returncode != 0
    if dirty:
        shutil.copytree(os.path.join(WT, PKG), os.path.join(dst, PKG),
                        ignore=shutil.ignore_patterns("tests", "__pycache__"))
        return "worktree"
    patch = os.path.join(OUT, f"patch_{K}.diff")
    if not os.path.exists(patch) or os.path.getsize(patch) == 0:
        raise SystemExit("worktree is clean and there is no patch to apply: nothing to compare")
    export_head(dst)
    subprocess.check_call(["git", "apply", "--exclude=*/tests/*", patch], cwd=dst)
    return "HEAD + " + patch


def load(root: str, names: list[str]) -> dict:
    for m in [m for m in sys.modules if m == PKG or m.startswith(PKG + ".")]:
        del sys.modules[m]
    sys.path.insert(0, root)
    try:
        import importlib
        ns = {}
        for n in names:
            mod = importlib.import_module(f"{PKG}.{n}")
            assert os.path.realpath(mod.__file__).startswith(os.path.realpath(root)), mod.__file__
            ns[n] = mod
        return ns
    finally:
        sys.path.remove(root)


def canon(x):
    """Canonical, bit-exact, comparable form of a result."""
    if isinstance(x, np.ndarray):
        return ("nd", str(x.dtype), x.shape, np.ascontiguousarray(x).tobytes())
    if isinstance(x, np.generic):
        return ("np", type(x).__name__, x.tobytes())
    if isinstance(x, (list, tuple)):
        return (type(x).__name__ if type(x) in (list, tuple) else "tuple-like:" + type(x).__name__,
                tuple(canon(y) for y in x))
    if isinstance(x, dict):
        return ("dict", tuple((k, canon(v)) for k, v in x.items()))
    return (type(x).__name__, repr(x))


def attempt(fn, *a, **kw):
    try:
        return ("ok", canon(fn(*a, **kw)))
    except Exception as e:  # noqa
        return ("exc", type(e).__name__, str(e))


# ----------------------------------------------------------------------------------------------- cases
def viable(n):
    return [c for c in range(2 ** n) if bin(c).count("1") not in (0, 1, n)]


def run_cases(ns, tmp: str) -> list:
    reg, coal = ns["regret"], ns["coalitions"]
    GRM, Coalition = reg.GameRegretMinimizer, coal.Coalition
    out = []

    def rec(tag, value):
        out.append((tag, value))

    def snapshot(tag, rm, rng):
        rec(tag + "/iteration", canon(rm.iteration))
        rec(tag + "/regret", canon(rm.cumulative_regret))
        rec(tag + "/strategy", canon(rm.cumulative_strategy))
        # current strategy in every node (and, to check the exceptions, in the first leaves)
        upto = min(rm.viable_metacoalitions, rm.number_of_regret_minimizers + 3)
        for r in range(upto):
            rec(tag + f"/rms[{r}]", attempt(rm.regret_matching_strategy, int(rm.meta_rank_to_id[r])))
        # average strategies, adressed by the coalitions of the original game
        v = viable(rm.number_of_players)
        for size in range(0, min(rm.limit_of_revealed, len(v)) + 1):
            for _ in range(3):
                past = [Coalition(int(c)) for c in rng.choice(v, size=size, replace=False)]
                rec(tag + f"/avg[{[c.id for c in past]}]", attempt(rm.get_average_strategy, past))
                rec(tag + f"/cur[{[c.id for c in past]}]", attempt(rm.regret_matching_strategy, past))

    configs = [(3, L, 4) for L in (1, 2, 3, 4, 7)] + [(4, L, 3) for L in (1, 2, 3, 4)] + [(5, L, 2) for L in (1, 2)]
    for n, limit, seeds in configs:
        v = viable(n)
        depth = min(limit, len(v))
        leaves = [[Coalition(c) for c in combo] for combo in combinations(v, depth)]
        for plus in (False, True):
            for seed in range(seeds):
                tag = f"n{n}/L{limit}/plus{plus}/s{seed}"
                rng = np.random.default_rng(1000 * n + 100 * limit + 10 * seed + plus)
                made = attempt(GRM, n, limit, plus)
                if made[0] != "ok":
                    rec(tag + "/ctor", made)
                    continue
                rm = GRM(n, limit, plus)
                rec(tag + "/tables", canon([rm.meta_rank_to_id, rm.meta_id_to_rank, rm.coalitions_to_player_ids,
                                            rm.number_of_regret_minimizers, rm.viable_metacoalitions]))
                snapshot(tag + "/it0", rm, rng)
                for it in range(1, 7):
                    kind = it % 6
                    order = rng.permutation(len(leaves))
                    used = [leaves[i] for i in order]
                    if kind == 1:
                        losses = rng.random(len(used))
                    elif kind == 2:    # integers with many zeros
                        losses = rng.integers(0, 3, len(used))
                    elif kind == 3:    # only a part of the leaves is reported
                        used = used[:max(1, len(used) // 2)]
                        losses = rng.random(len(used)).astype(np.float32)
                    elif kind == 4:    # signed and large
                        losses = rng.normal(size=len(used)) * 1e3
                    elif kind == 5:    # the same order inside every leaf reversed, all zero
                        used = [list(reversed(x)) for x in used]
                        losses = np.zeros(len(used))
                    else:
                        losses = rng.exponential(size=len(used))
                    rec(tag + f"/it{it}/call", attempt(rm.regret_min_iteration, losses, used))
                    snapshot(tag + f"/it{it}", rm, rng)
                    if it == 3:   # save, load, and continue with the loaded one
                        d = Path(tmp) / tag.replace("/", "_")
                        rec(tag + "/save", attempt(rm.save, d))
                        rec(tag + "/files", canon(sorted(p.name for p in d.iterdir())))
                        rec(tag + "/params", canon((d / "params.json").read_text()))
                        rm = GRM.load(d)
                # malformed calls: same exception, same state afterwards
                rec(tag + "/bad1", attempt(rm.regret_min_iteration, np.ones(len(leaves) + 1), leaves))
                rec(tag + "/bad2", attempt(rm.regret_min_iteration, np.ones(1), [[Coalition(2 ** n + 1)]]))
                rec(tag + "/bad3", attempt(rm.regret_min_iteration, np.ones((2, 2)), leaves[:1]))
                snapshot(tag + "/afterbad", rm, rng)
    return out


def main() -> int:
    names = ["coalitions", "regret"]
    with tempfile.TemporaryDirectory() as a, tempfile.TemporaryDirectory() as b, \
            tempfile.TemporaryDirectory() as ta, tempfile.TemporaryDirectory() as tb:
        export_head(a)
        what = make_refactored(b)
        same_src = all(open(os.path.join(a, PKG, f + ".py")).read() == open(os.path.join(b, PKG, f + ".py")).read()
                       for f in names)
        if same_src:
            raise SystemExit("the refactored sources equal the original ones: nothing to compare")
        res_a = run_cases(load(a, names), ta)
        res_b = run_cases(load(b, names), tb)
    print(f"original: git HEAD; refactored: {what}; {len(res_a)} / {len(res_b)} compared results")
    if len(res_a) != len(res_b):
        print("DIFFERENT: number of results", len(res_a), len(res_b))
        return 1
    for (tag_a, val_a), (tag_b, val_b) in zip(res_a, res_b):
        if tag_a != tag_b or val_a != val_b:
            print("DIFFERENT")
            print("  original  :", tag_a, str(val_a)[:600])
            print("  refactored:", tag_b, str(val_b)[:600])
            return 1
    print("EQUIVALENT")
    return 0


if __name__ == "__main__":
    sys.exit(main())
