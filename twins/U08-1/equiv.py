"""Differential test for refactoring 1 (generators._apply_or: filter(partial(disjoint_coalitions, S), ...) inlined).

Run with cwd=/tmp/wt10/U08.  The ORIGINAL package is taken from `git archive HEAD` into a temporary directory and
run in its own interpreter; the refactored working tree is run in another one; the pickled results are compared exactly.
"""
import os
import pickle
import subprocess
import sys
import tempfile

WORKTREE = "/tmp/wt10/U08"


# ----------------------------------------------------------------------------------------------------------------------
# worker: runs inside one of the two source trees
# ----------------------------------------------------------------------------------------------------------------------
def _freeze(obj):
    """Turn a result into something picklable and exactly comparable."""
    import numpy as np
    if isinstance(obj, np.ndarray):
        return ("nd", str(obj.dtype), obj.shape, obj.tobytes())
    if isinstance(obj, (np.generic,)):
        return ("npscalar", str(obj.dtype), obj.tobytes())
    if isinstance(obj, dict):
        return ("dict", tuple((k, _freeze(v)) for k, v in obj.items()))
    if isinstance(obj, (list, tuple)):
        return (type(obj).__name__, tuple(_freeze(x) for x in obj))
    return ("py", type(obj).__name__, repr(obj))


def _call(fn):
    try:
        return ("ok", _freeze(fn()))
    except BaseException as e:  # noqa
        return ("exc", type(e).__name__, str(e))


def worker(root: str, out: str) -> None:
    sys.path.insert(0, root)
    os.chdir(root)
    import numpy as np

    import incomplete_cooperative
    assert os.path.realpath(incomplete_cooperative.__file__).startswith(os.path.realpath(root) + os.sep), \
        (incomplete_cooperative.__file__, root)
    from incomplete_cooperative import generators as G

    results = []

    def game_result(name, n, seed, **kwargs):
        """Run a registry entry with a seeded generator; return values and the generator state afterwards."""
        rng = np.random.default_rng(seed)
        # the graph-weight family draws from the module level generator: seed it as well
        G._gen.bit_generator.state = np.random.default_rng(seed + 1000).bit_generator.state
        G._LAST_OWNER = seed % 3
        game = G.GENERATORS[name](n, rng, **kwargs)
        return (game.number_of_players, game.get_values(), rng.bit_generator.state, G._gen.bit_generator.state,
                G._LAST_OWNER)

    # 1. `_apply_or` directly, on random / special operands
    case_rng = np.random.default_rng(12345)
    for n in range(0, 7):
        for rep in range(40):
            kind = rep % 5
            size = 2**n
            if kind == 0:
                a, b = -case_rng.random(size), -case_rng.random(size)
            elif kind == 1:
                a, b = case_rng.normal(size=size), case_rng.normal(size=size)
            elif kind == 2:
                a, b = -case_rng.integers(0, 3, size).astype(float), -case_rng.integers(0, 3, size).astype(float)
            elif kind == 3:
                a, b = case_rng.normal(size=size), case_rng.normal(size=size)
                a[case_rng.integers(size)] = np.nan
                b[case_rng.integers(size)] = -np.inf
            else:
                a, b = -case_rng.random(size).astype(np.float32), -case_rng.integers(0, 5, size)
            a0, b0 = a.copy(), b.copy()
            results.append((("apply_or", n, rep),
                            _call(lambda: (G._apply_or(a, b, n), a, b))))
            assert np.array_equal(a, a0, equal_nan=True) and np.array_equal(b, b0, equal_nan=True)
    # wrong sizes: same exceptions
    for n, size_a, size_b in [(3, 4, 8), (3, 8, 4), (2, 0, 4), (4, 16, 15)]:
        a, b = -case_rng.random(size_a), -case_rng.random(size_b)
        results.append((("apply_or_bad", n, size_a, size_b), _call(lambda: G._apply_or(a, b, n))))
    results.append((("apply_or_bad_n", "float"), _call(lambda: G._apply_or(np.zeros(4), np.zeros(4), 2.0))))
    results.append((("apply_or_bad_n", "neg"), _call(lambda: G._apply_or(np.zeros(4), np.zeros(4), -1))))

    # 2. the OXS generator (the only caller) with several parameters
    for n in range(1, 7):
        for seed in range(12):
            for number_of_xs in (1, 2, 6):
                for normalize in (True, False):
                    if n == 6 and (seed >= 4 or number_of_xs == 6 and seed >= 2):
                        continue
                    results.append((("oxs", n, seed, number_of_xs, normalize), _call(
                        lambda: game_result("oxs", n, seed, number_of_xs=number_of_xs, normalize=normalize))))

    # 3. every registry entry
    for name in G.GENERATORS:
        for n in (3, 4, 5):
            for seed in range(3):
                results.append((("registry", name, n, seed), _call(lambda: game_result(name, n, seed))))

    with open(out, "wb") as f:
        pickle.dump(results, f)


# ----------------------------------------------------------------------------------------------------------------------
# driver
# ----------------------------------------------------------------------------------------------------------------------
def main() -> int:
    env = dict(os.environ, OMP_NUM_THREADS="1", MKL_NUM_THREADS="1", PYTHONDONTWRITEBYTECODE="1")
    env.pop("PYTHONPATH", None)
    with tempfile.TemporaryDirectory(prefix="equiv_U08_") as tmp:
        orig_root = os.path.join(tmp, "orig")
        os.mkdir(orig_root)
        archive = subprocess.run(["git", "-C", WORKTREE, "archive", "HEAD", "incomplete_cooperative"],
                                 check=True, capture_output=True).stdout
        subprocess.run(["tar", "-x", "-C", orig_root], input=archive, check=True)
        outs = {}
        for label, root in (("orig", orig_root), ("new", WORKTREE)):
            out = os.path.join(tmp, f"{label}.pkl")
            subprocess.run([sys.executable, os.path.abspath(__file__), "--worker", root, out], check=True, env=env,
                           cwd=root)
            with open(out, "rb") as f:
                outs[label] = pickle.load(f)
    orig, new = outs["orig"], outs["new"]
    if len(orig) != len(new):
        print("DIFFERENT: number of cases", len(orig), len(new))
        return 1
    n_ok = n_exc = 0
    for (key_o, res_o), (key_n, res_n) in zip(orig, new):
        if key_o != key_n or res_o != res_n:
            print("DIFFERENT", key_o, key_n)
            print(" original  :", repr(res_o)[:600])
            print(" refactored:", repr(res_n)[:600])
            return 1
        n_ok += res_o[0] == "ok"
        n_exc += res_o[0] == "exc"
    print(f"{len(orig)} cases compared ({n_ok} results, {n_exc} identical exceptions)")
    print("EQUIVALENT")
    return 0


if __name__ == "__main__":
    if len(sys.argv) > 1 and sys.argv[1] == "--worker":
        worker(sys.argv[2], sys.argv[3])
    else:
        sys.exit(main())
