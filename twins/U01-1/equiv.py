"""Differential test for refactoring 1 (bounds.py: named predicate, de Morgan, generator complements, conditional expression).

Run with cwd=/tmp/wt10/U01.  Loads the ORIGINAL package from `git show HEAD:` into a temporary directory and the refactored
one from the worktree, drives both with identical operation sequences and compares the whole value table exactly.
"""
import atexit
import importlib
import io
import os
import shutil
import subprocess
import sys
import tarfile
import tempfile
import traceback

import numpy as np

WT = os.getcwd()
PKG = "incomplete_cooperative"
MODULES = ["bounds", "game", "coalitions", "coalition_ids", "functoolz", "norms", "exploitability", "protocols"]


def _purge():
    for name in [m for m in sys.modules if m == PKG or m.startswith(PKG + ".")]:
        del sys.modules[name]


def load_pkg(root):
    """Import the package that lives in `root` and return a namespace of its modules."""
    _purge()
    sys.path.insert(0, root)
    try:
        ns = {m: importlib.import_module(f"{PKG}.{m}") for m in MODULES}
        for mod in ns.values():
            assert os.path.realpath(mod.__file__).startswith(os.path.realpath(root)), mod.__file__
    finally:
        sys.path.remove(root)
        _purge()
    return ns


def original_tree():
    tmp = tempfile.mkdtemp(prefix="U01_orig_pkg_")
    atexit.register(shutil.rmtree, tmp, ignore_errors=True)
    data = subprocess.run(["git", "-C", WT, "archive", "HEAD", PKG], check=True, capture_output=True).stdout
    with tarfile.open(fileobj=io.BytesIO(data)) as tar:
        tar.extractall(tmp)
    return tmp


def superadditive_table(rng, n, integer):
    """A random superadditive game as a value vector indexed by coalition id."""
    size = 2 ** n
    v = np.zeros(size)
    order = sorted(range(1, size), key=lambda c: bin(c).count("1"))
    for c in order:
        best = 0.0
        sub = (c - 1) & c
        while sub:
            best = max(best, v[sub] + v[c ^ sub])
            sub = (sub - 1) & c
        inc = float(rng.integers(0, 6)) if integer else float(rng.random() * 3)
        v[c] = best + inc
    return v


def arbitrary_table(rng, n, integer):
    size = 2 ** n
    v = rng.integers(-5, 20, size).astype(float) if integer else rng.normal(size=size) * 7
    v[0] = 0
    return v


def outcome(fn):
    try:
        return ("ok", fn())
    except BaseException as e:  # noqa
        return ("exc", type(e).__name__, str(e))


def same(a, b):
    if a[0] != b[0]:
        return False
    if a[0] == "exc":
        return a == b
    x, y = a[1], b[1]
    if x is None or y is None:
        return x is None and y is None
    x, y = np.asarray(x), np.asarray(y)
    return x.dtype == y.dtype and x.shape == y.shape and np.array_equal(x, y, equal_nan=True)


class Driver:
    """Holds one incomplete game of one package version and applies operations to it."""

    def __init__(self, ns, n, bounds_name):
        self.ns = ns
        self.C = ns["coalitions"].Coalition
        self.game = ns["game"].IncompleteCooperativeGame(n, ns["bounds"].BOUNDS[bounds_name])

    def apply(self, op):
        kind = op[0]
        g, C = self.game, self.C
        if kind == "reset":
            _, ids, vals = op
            return outcome(lambda: (g.set_known_values(list(vals), [C(int(i)) for i in ids]), g._values.copy())[1])
        if kind == "reveal":
            _, i, val = op
            return outcome(lambda: (g.reveal_value(val, C(int(i))), g._values.copy())[1])
        if kind == "unreveal":
            _, i = op
            return outcome(lambda: (g.unreveal_value(C(int(i))), g._values.copy())[1])
        if kind == "compute":
            return outcome(lambda: (g.compute_bounds(), g._values.copy())[1])
        if kind == "poison":
            # leave garbage in the bound columns of unknown coalitions: recompute must overwrite it identically
            _, lo, up = op
            return outcome(lambda: (g.set_lower_bounds(lo), g.set_upper_bounds(up), g._values.copy())[2])
        raise AssertionError(kind)


def make_ops(rng, n, table, with_minimal):
    size = 2 ** n
    minimal = [0, size - 1] + [2 ** i for i in range(n)]
    others = [c for c in range(size) if c not in minimal]
    ops = []
    known = set(minimal) if with_minimal else set(rng.choice(size, rng.integers(1, size), replace=False).tolist()) | {0}
    if with_minimal:
        extra = rng.choice(others, rng.integers(0, len(others) + 1), replace=False).tolist() if others else []
        known |= set(extra)
    ids = sorted(known)
    if rng.random() < 0.5:
        rng.shuffle(ids)
    ops.append(("reset", list(ids), [table[i] for i in ids]))
    ops.append(("compute",))
    for _ in range(int(rng.integers(3, 9))):
        r = rng.random()
        unknown = [c for c in range(size) if c not in known]
        removable = [c for c in known if (c not in minimal or not with_minimal)]
        if r < 0.45 and unknown:
            c = int(rng.choice(unknown))
            known.add(c)
            ops.append(("reveal", c, table[c]))
        elif r < 0.75 and removable:
            c = int(rng.choice(removable))
            known.discard(c)
            ops.append(("unreveal", c))
        elif r < 0.85:
            ops.append(("poison", rng.normal(size=size), rng.normal(size=size)))
        elif r < 0.93:
            known = set(minimal) | set(rng.choice(size, rng.integers(0, size), replace=False).tolist())
            ids = sorted(known)
            ops.append(("reset", ids, [table[i] for i in ids]))
        else:
            ops.append(("compute",))
        ops.append(("compute",))
    return ops


def main():
    orig = load_pkg(original_tree())
    new = load_pkg(WT)
    assert orig["bounds"].__file__ != new["bounds"].__file__
    names = list(new["bounds"].BOUNDS)
    assert names == list(orig["bounds"].BOUNDS)
    cases = comparisons = 0
    for name in names:
        if name == "sam_apx_1000":
            plan = [(3, 6), (4, 4)]
        elif name == "sam_apx_100":
            plan = [(3, 10), (4, 8), (5, 3)]
        else:
            plan = [(2, 10), (3, 30), (4, 30), (5, 20), (6, 6)]
        for n, seeds in plan:
            for seed in range(seeds):
                for variant in range(4):
                    rng = np.random.default_rng([seed, n, variant, 17])
                    integer = variant % 2 == 0
                    superadd = variant < 2 or seed % 3 != 0
                    table = superadditive_table(rng, n, integer) if superadd else arbitrary_table(rng, n, integer)
                    with_minimal = not (variant == 3 and seed % 4 == 0)
                    ops = make_ops(rng, n, table, with_minimal)
                    a, b = Driver(orig, n, name), Driver(new, n, name)
                    cases += 1
                    for step, op in enumerate(ops):
                        ra, rb = a.apply(op), b.apply(op)
                        comparisons += 1
                        if not same(ra, rb):
                            print("DIFFERENT")
                            print("bounds:", name, "n:", n, "seed:", seed, "variant:", variant, "step:", step, "op:", op)
                            print("original  :", ra)
                            print("refactored:", rb)
                            return 1
    # the module-private structure table and the public registry keys
    for n in range(1, 7):
        sa = orig["bounds"]._get_sub_super_coalition_structure(n)
        sb = new["bounds"]._get_sub_super_coalition_structure(n)
        for x, y in zip(sa, sb):
            comparisons += 1
            if not same(("ok", x), ("ok", y)):
                print("DIFFERENT\nstructure table for n =", n)
                return 1
    print(f"EQUIVALENT ({cases} operation sequences, {comparisons} exact comparisons, bounds computers: {names})")
    return 0


if __name__ == "__main__":
    try:
        sys.exit(main())
    except SystemExit:
        raise
    except BaseException:  # noqa
        traceback.print_exc()
        print("DIFFERENT (harness error)")
        sys.exit(1)
