"""Differential test for refactoring 3 (run/greedy.py: `greedy_func` and `get_greedy_rewards`).

Run with cwd=/tmp/wt10/U10.  The ORIGINAL package is materialised from `git show HEAD:<path>` into a temporary
directory, the REFACTORED one is the worktree.  The same driver (this file with `--driver`) is run in a subprocess against
each of the two trees, from a fresh scratch directory (relative paths, so that messages of exceptions are comparable), and
the two pickled traces are compared exactly.
"""
from __future__ import annotations

import hashlib
import os
import pickle
import subprocess
import sys
import tempfile
from pathlib import Path

WORKTREE = Path("/tmp/wt10/U10")
PYTHON = "/venv/bin/python"


# --------------------------------------------------------------------------------------------------------------------
# driver: runs inside a subprocess, against whichever `incomplete_cooperative` is first on PYTHONPATH
# --------------------------------------------------------------------------------------------------------------------
def driver(out_file: str, expected_root: str) -> None:
    import itertools
    import shutil
    import warnings
    from argparse import Namespace
    from functools import partial
    from random import Random
    from unittest.mock import patch

    import numpy as np

    import incomplete_cooperative
    assert Path(incomplete_cooperative.__file__).resolve().is_relative_to(Path(expected_root).resolve()), \
        incomplete_cooperative.__file__
    from incomplete_cooperative import gameplay, generators
    from incomplete_cooperative.bounds import BOUNDS
    from incomplete_cooperative.coalitions import Coalition
    from incomplete_cooperative.generators import GENERATORS
    from incomplete_cooperative.run import greedy as gr
    from incomplete_cooperative.run import save as save_mod
    from incomplete_cooperative.run.model import GAP_FUNCTIONS, ModelInstance
    from incomplete_cooperative.run.save import save_json

    warnings.simplefilter("ignore")
    trace: list = []
    case = 0

    class InProcessPool:
        """`multiprocessing.Pool` without processes: arguments are copied through pickle as a real pool does."""

        def __init__(self, processes=None):
            self.processes = processes

        def __enter__(self):
            return self

        def __exit__(self, *exc):
            return False

        def starmap(self, func, iterable):
            return [func(*pickle.loads(pickle.dumps(args))) for args in iterable]

    def reseed_module_generator(seed: int) -> None:
        generators._gen.bit_generator.state = np.random.default_rng(seed).bit_generator.state

    def run_case(label, randomize: bool, real_pool: bool = False, **kwargs) -> None:
        seed = kwargs["seed"]
        reseed_module_generator(seed + 17)
        root = Path("case")
        captured: list = []

        def recording_saver(path, unique_name, output):
            captured.append((type(path).__name__, str(path), unique_name, output.data, output.actions,
                             str(output.data.dtype), str(output.actions.dtype), output.actions.shape,
                             output.actions.flags.c_contiguous, output.actions.flags.f_contiguous))

        func = partial(gr.greedy_func, randomize=randomize)
        args = Namespace(func=func, model_dir=root, unique_name=f"run-{seed}", **kwargs)
        try:
            instance = ModelInstance.from_parsed_arguments(args)
            with patch.object(save_mod, "SAVERS", {"data.json": save_json, "rec": recording_saver}):
                if real_pool:
                    func(instance, args)
                else:
                    with patch.object(gameplay, "Pool", InProcessPool):
                        func(instance, args)
            result = ("ok", captured, (root / "data.json").read_bytes(),
                      repr(instance.game_generator_rng.bit_generator.state), repr(generators._gen.bit_generator.state),
                      instance.run_steps_limit)
        except BaseException as e:  # noqa
            result = ("exc", type(e).__name__, str(e), captured)
        trace.append((label, result))
        shutil.rmtree(root, ignore_errors=True)

    # ---- A: every generator of the registry, 3 and 4 players, plain and randomised greedy ---------------------------
    bounds_names = list(BOUNDS.keys())
    gap_names = list(GAP_FUNCTIONS.keys())
    rng = np.random.default_rng(30240)
    for gen_name in GENERATORS:
        for players in (3, 4):
            for randomize in (False, True):
                limit = int(rng.integers(0, 6 if players == 3 else 5))  # 3 resp. 10 explorable coalitions
                run_case(("A", gen_name, players, randomize), randomize,
                         number_of_players=players, game_generator=gen_name,
                         game_class=bounds_names[int(rng.integers(0, 4))],
                         gap_function=gap_names[int(rng.integers(0, len(gap_names)))],
                         run_steps_limit=limit, sampling_repetitions=int(rng.integers(1, 4)),
                         parallel_environments=1, seed=int(rng.integers(0, 2**31)))
                case += 1

    # ---- B: every bounds computer and gap function; generators with many ties (randomised choice matters) ------------
    for game_class, gap, seed in itertools.product(bounds_names, gap_names, range(4)):
        run_case(("B", game_class, gap, seed), seed % 2 == 0, number_of_players=3 if "100" in game_class else 4,
                 game_generator=["factory_one", "factory_fixed", "xos_one", "graph_cycle"][seed], game_class=game_class,
                 gap_function=gap, run_steps_limit=[3, 10, 12, 2][seed], sampling_repetitions=1 + seed % 3,
                 parallel_environments=1, seed=seed)
        case += 1

    # ---- C: degenerate arguments -----------------------------------------------------------------------------------------
    for i, extra in enumerate([dict(sampling_repetitions=0), dict(run_steps_limit=0), dict(run_steps_limit=100),
                               dict(run_steps_limit=-1), dict(number_of_players=2), dict(game_generator="nope"),
                               dict(linear=True), dict(sampling_repetitions=5)]):
        for randomize in (False, True):
            kwargs = dict(number_of_players=3, game_generator="noisy_factory", game_class="superadditive",
                          gap_function="exploitability", run_steps_limit=2, sampling_repetitions=2,
                          parallel_environments=1, seed=77 + i)
            kwargs.update(extra)
            run_case(("C", i, randomize), randomize, **kwargs)
            case += 1

    # ---- D: real process pools -------------------------------------------------------------------------------------------
    for seed in range(4):
        run_case(("D", seed), seed % 2 == 1, real_pool=True, number_of_players=3,
                 game_generator=["factory", "noisy_factory", "graph", "xos"][seed],
                 game_class="superadditive", gap_function="exploitability", run_steps_limit=3, sampling_repetitions=2,
                 parallel_environments=2, seed=500 + seed)
        case += 1

    # ---- E: `get_greedy_rewards` on hand-made expected gaps: exact ties, ties within EPSILON, NaN, infinities -----------
    class StubEnv:
        def __init__(self, coalitions):
            self.explorable_coalitions = coalitions
            self.incomplete_game = "the game"
            self.generated = 0

        def get_wrapper_attr(self, name):
            return getattr(self, name)

        def generator(self):
            self.generated += 1
            return ("game", self.generated)

    for seed in range(600):
        r = np.random.default_rng(80000 + seed)
        n_actions = int(r.integers(0, 7))
        coalitions = [Coalition(int(c)) for c in r.choice(np.arange(3, 40), size=n_actions, replace=False)]
        repetitions = int(r.integers(1, 4))
        max_steps = int(r.integers(0, 9))
        kind = seed % 6
        seen: list = []

        def values_for(n_rows: int) -> np.ndarray:
            values = r.normal(size=(n_rows, repetitions))
            if kind == 1:
                values = np.round(values)  # exact ties
            elif kind == 2:
                values = np.round(values) + r.choice([0, 4e-7, -4e-7, 2e-6, 1e-6], size=values.shape)  # around EPSILON
            elif kind == 3:
                values[r.random(values.shape) < 0.15] = np.nan
            elif kind == 4:
                values[r.random(values.shape) < 0.2] = np.inf
                values[r.random(values.shape) < 0.1] = -np.inf
            elif kind == 5:
                values = np.zeros_like(values)  # everything ties
            return values

        def stub_single(game, full_games, action_sequence, gap_func, processes=1):
            seen.append(("single", game, list(full_games), list(action_sequence), gap_func, processes))
            return iter(values_for(1)[0])

        def stub_stacked(game, full_games, action_sequences, gap_func, processes=1):
            sequences = [[c.id for c in s] for s in action_sequences]
            seen.append(("stacked", game, list(full_games), sequences, gap_func, processes))
            return iter(values_for(len(sequences)))

        env = StubEnv(coalitions)
        random = Random(seed) if seed % 3 else None
        try:
            with patch.object(gr, "get_exploitabilities_of_action_sequence", stub_single), \
                    patch.object(gr, "get_stacked_exploitabilities_of_action_sequences", stub_stacked):
                best, acts = gr.get_greedy_rewards(env, max_steps, repetitions, "gap", int(r.integers(1, 3)), random)
            result = ("ok", best, str(best.dtype), acts, [type(a).__name__ for a in acts], seen, env.generated,
                      None if random is None else random.getstate())
        except BaseException as e:  # noqa
            result = ("exc", type(e).__name__, str(e), seen, env.generated, None if random is None else random.getstate())
        trace.append((("E", seed, kind), result))
        case += 1

    n_ok = sum(1 for t in trace if t[1][0] == "ok")
    with open(out_file, "wb") as f:
        pickle.dump({"cases": case, "trace": trace, "ok": n_ok}, f)


# --------------------------------------------------------------------------------------------------------------------
# comparison
# --------------------------------------------------------------------------------------------------------------------
def same(a, b) -> bool:
    import numpy as np
    if type(a) is not type(b):
        return False
    if isinstance(a, np.ndarray):
        if a.dtype != b.dtype or a.shape != b.shape:
            return False
        if a.dtype.kind in "fc":
            return bool(np.array_equal(a, b, equal_nan=True)) and bool(np.array_equal(np.signbit(a), np.signbit(b)))
        return bool(np.array_equal(a, b))
    if isinstance(a, (list, tuple)):
        return len(a) == len(b) and all(same(x, y) for x, y in zip(a, b))
    if isinstance(a, dict):
        return list(a.keys()) == list(b.keys()) and all(same(a[k], b[k]) for k in a)
    if isinstance(a, float):
        return a == b or (a != a and b != b)
    return a == b


def materialise_original(dest: Path) -> None:
    names = subprocess.run(["git", "-C", str(WORKTREE), "ls-tree", "-r", "--name-only", "HEAD", "incomplete_cooperative"],
                           check=True, capture_output=True, text=True).stdout.split("\n")
    for name in filter(None, names):
        blob = subprocess.run(["git", "-C", str(WORKTREE), "show", f"HEAD:{name}"], check=True, capture_output=True).stdout
        target = dest / name
        target.parent.mkdir(parents=True, exist_ok=True)
        target.write_bytes(blob)


def run_driver(script: Path, package_root: Path, scratch: Path, out: Path) -> dict:
    scratch.mkdir()
    env = dict(os.environ, PYTHONPATH=str(package_root), OMP_NUM_THREADS="1", MKL_NUM_THREADS="1", MPLBACKEND="Agg",
               PYTHONDONTWRITEBYTECODE="1", PYTHONHASHSEED="0")
    subprocess.run([PYTHON, str(script), "--driver", str(out), str(package_root)], cwd=scratch, env=env, check=True)
    with out.open("rb") as f:
        return pickle.load(f)


def main() -> int:
    script = Path(__file__).resolve()
    with tempfile.TemporaryDirectory(prefix="equiv_U10_") as tmp_name:
        tmp = Path(tmp_name)
        materialise_original(tmp / "orig")
        changed = subprocess.run(["git", "-C", str(WORKTREE), "diff", "--stat"], check=True, capture_output=True, text=True).stdout
        if not changed.strip():
            print("WARNING: the worktree has no change, comparing the original with itself")
        original = run_driver(script, tmp / "orig", tmp / "scratch_orig", tmp / "orig.pkl")
        refactored = run_driver(script, WORKTREE, tmp / "scratch_new", tmp / "new.pkl")
    if original["cases"] != refactored["cases"] or len(original["trace"]) != len(refactored["trace"]):
        print("DIFFERENT: number of cases", original["cases"], refactored["cases"])
        return 1
    for a, b in zip(original["trace"], refactored["trace"]):
        if not same(a, b):
            print("DIFFERENT")
            print("original  :", repr(a)[:3000])
            print("refactored:", repr(b)[:3000])
            return 1
    print(f"{original['cases']} cases ({original['ok']} without exception), {len(original['trace'])} trace records compared")
    print("EQUIVALENT")
    return 0


if __name__ == "__main__":
    if len(sys.argv) >= 2 and sys.argv[1] == "--driver":
        driver(sys.argv[2], sys.argv[3])
    else:
        sys.exit(main())
