"""Differential test for refactoring 2 (solvers: the action mask is read once and walked with enumerate).

Run with cwd=/tmp/wt10/U08.  The ORIGINAL package is taken from `git archive HEAD` into a temporary directory and
run in its own interpreter; the refactored working tree is run in another one; the pickled results are compared exactly.
"""
import os
import pickle
import subprocess
import sys
import tempfile

WORKTREE = "/tmp/wt10/U08"


# ----------------------------------------------------------------------------------------------------------------------
# worker: runs inside one of the two source trees
# ----------------------------------------------------------------------------------------------------------------------
def _freeze(obj):
    """Turn a result into something picklable and exactly comparable."""
    import numpy as np
    if isinstance(obj, np.ndarray):
        return ("nd", str(obj.dtype), obj.shape, obj.tobytes())
    if isinstance(obj, (np.generic,)):
        return ("npscalar", str(obj.dtype), obj.tobytes())
    if isinstance(obj, dict):
        return ("dict", tuple((k, _freeze(v)) for k, v in obj.items()))
    if isinstance(obj, (list, tuple)):
        return (type(obj).__name__, tuple(_freeze(x) for x in obj))
    return ("py", type(obj).__name__, repr(obj))


def _call(fn):
    try:
        return ("ok", _freeze(fn()))
    except BaseException as e:  # noqa
        return ("exc", type(e).__name__, str(e))


def worker(root: str, out: str) -> None:
    sys.path.insert(0, root)
    os.chdir(root)
    import numpy as np

    import incomplete_cooperative
    assert os.path.realpath(incomplete_cooperative.__file__).startswith(os.path.realpath(root) + os.sep), \
        (incomplete_cooperative.__file__, root)
    from incomplete_cooperative.coalitions import Coalition
    from incomplete_cooperative.run.model import ModelInstance
    from incomplete_cooperative.solvers import SOLVERS

    results = []

    def env_fingerprint(env):
        inner = getattr(env, "icg_gym", env)
        fp = [inner.incomplete_game._values.copy(), inner.steps_taken, inner.full_game.get_values(),
              inner.normalized_game.get_values(), env.np_random.bit_generator.state]
        if inner is not env:
            fp.append(env.rng.bit_generator.state)
        return fp

    def solver_state(solver):
        gen = getattr(solver, "_generator", None)
        return gen.getstate() if gen is not None else None

    # 1. real environments: walk whole episodes, ask every solver in every state -----------------------------------
    generators = ["factory", "noisy_factory", "factory_cheerleader_next", "graph_cycle", "graph_random", "xos", "xs3",
                  "oxs", "k_budget_generator", "covg_fn_generator", "factory_fixed", "noisy_factory_square"]
    for gen_i, gen_name in enumerate(generators):
        for n in (3, 4, 5):
            for seed in range(2 if n == 5 else 3):
                for linear in (False, True):
                    for driver in (["greedy", "largest", "random", "greedy_worst"][(gen_i + seed) % 4],) \
                            if not linear else ("random",):
                        instance = ModelInstance(number_of_players=n, game_generator=gen_name, seed=seed + 17 * gen_i,
                                                 linear=linear, run_steps_limit=None)
                        env = instance.get_env()
                        names = list(SOLVERS) if not linear else ["random"]
                        solvers = {name: SOLVERS[name](instance) for name in names}
                        env.reset()
                        for solver in solvers.values():
                            solver.after_reset(env)
                        step_no = 0
                        while not env.done and step_no < 2**n:
                            chosen = {}
                            for name, solver in solvers.items():
                                before = env_fingerprint(env)
                                res = _call(lambda: solver.next_step(env))
                                after = env_fingerprint(env)
                                results.append((("env", gen_name, n, seed, linear, driver, step_no, name),
                                                (res, _freeze(before), _freeze(after), _freeze(solver_state(solver)))))
                                if res[0] == "ok":
                                    chosen[name] = res
                            # drive the episode with one of the solvers' answers (same in both trees if equivalent)
                            act_res = chosen.get(driver)
                            if act_res is None:
                                break
                            action = int(act_res[1][2])
                            env.step(action)
                            step_no += 1

    # 2. fake environments: arbitrary masks and reward tables (ties, all-invalid masks, integer masks) ------------------
    class FakeGym:
        def __init__(self, mask, rewards, sizes, seed):
            self._mask = mask
            self._rewards = rewards
            self.explorable_coalitions = [Coalition(2**s - 1) for s in sizes]
            self.np_random = np.random.default_rng(seed)
            self.log = []

        def action_masks(self):
            return self._mask.copy()

        def step(self, action):
            self.log.append(("step", action))
            return None, self._rewards[action], False, False, {}

        def unstep(self, action):
            self.log.append(("unstep", action))
            return None, 0, False, False, {}

        def get_wrapper_attr(self, name):
            return getattr(self, name)

    case_rng = np.random.default_rng(777)
    for case in range(400):
        size = int(case_rng.integers(0, 12))
        kind = case % 4
        if kind == 0:
            mask = case_rng.random(size) < 0.5
        elif kind == 1:
            mask = case_rng.integers(0, 3, size)  # integer mask: truthiness
        elif kind == 2:
            mask = np.zeros(size, dtype=bool)  # nothing valid
        else:
            mask = case_rng.random(size) < 0.9
        rewards = [float(x) for x in case_rng.integers(-3, 3, size)]  # many ties
        if case % 7 == 0 and size:
            rewards[int(case_rng.integers(size))] = float("nan")
        sizes = [int(x) for x in case_rng.integers(1, 5, size)]
        instance = ModelInstance(seed=case)
        for name in SOLVERS:
            for use_reset in (False, True):
                fake = FakeGym(mask, rewards, sizes, case)
                solver = SOLVERS[name](instance)
                if use_reset:
                    solver.after_reset(fake)
                res = [_call(lambda: solver.next_step(fake)) for _ in range(3)]
                results.append((("fake", case, name, use_reset),
                                (res, _freeze(fake.log), _freeze(solver_state(solver)),
                                 _freeze(fake.np_random.bit_generator.state))))
    # two-dimensional mask: identical failure mode
    for name in SOLVERS:
        fake = FakeGym(np.ones((3, 2), dtype=bool), [0.0, 1.0, 2.0], [1, 2, 3], 0)
        solver = SOLVERS[name](ModelInstance(seed=1))
        results.append((("fake2d", name), (_call(lambda: solver.next_step(fake)), _freeze(fake.log))))

    with open(out, "wb") as f:
        pickle.dump(results, f)


# ----------------------------------------------------------------------------------------------------------------------
# driver
# ----------------------------------------------------------------------------------------------------------------------
def main() -> int:
    env = dict(os.environ, OMP_NUM_THREADS="1", MKL_NUM_THREADS="1", PYTHONDONTWRITEBYTECODE="1")
    env.pop("PYTHONPATH", None)
    with tempfile.TemporaryDirectory(prefix="equiv_U08_") as tmp:
        orig_root = os.path.join(tmp, "orig")
        os.mkdir(orig_root)
        archive = subprocess.run(["git", "-C", WORKTREE, "archive", "HEAD", "incomplete_cooperative"],
                                 check=True, capture_output=True).stdout
        subprocess.run(["tar", "-x", "-C", orig_root], input=archive, check=True)
        outs = {}
        for label, root in (("orig", orig_root), ("new", WORKTREE)):
            out = os.path.join(tmp, f"{label}.pkl")
            subprocess.run([sys.executable, os.path.abspath(__file__), "--worker", root, out], check=True, env=env,
                           cwd=root)
            with open(out, "rb") as f:
                outs[label] = pickle.load(f)
    orig, new = outs["orig"], outs["new"]
    if len(orig) != len(new):
        print("DIFFERENT: number of cases", len(orig), len(new))
        return 1
    for (key_o, res_o), (key_n, res_n) in zip(orig, new):
        if key_o != key_n or res_o != res_n:
            print("DIFFERENT", key_o, key_n)
            print(" original  :", repr(res_o)[:600])
            print(" refactored:", repr(res_n)[:600])
            return 1
    n_env = sum(k[0] == "env" for k, _ in orig)
    print(f"{len(orig)} cases compared ({n_env} solver calls in real environments, {len(orig) - n_env} on fake ones)")
    print("EQUIVALENT")
    return 0


if __name__ == "__main__":
    if len(sys.argv) > 1 and sys.argv[1] == "--worker":
        worker(sys.argv[2], sys.argv[3])
    else:
        sys.exit(main())
