"""Differential test for refactoring 2 (icg_gym.py: comprehension / named intermediates / shared step result; solvers/greedy.py: if-else).

Run with cwd=/tmp/wt9/T04:  OMP_NUM_THREADS=1 /venv/bin/python /tmp/twin_out/T04/equiv_2.py

The ORIGINAL package is taken from git (`git archive HEAD incomplete_cooperative`) into a temporary directory, the
REFACTORED one is the working tree.  The same deterministic list of cases is run in two fresh interpreters (one per
source tree, the wanted tree is put first on sys.path and the origin of the imported package is asserted), every
result is canonicalised down to bytes (dtype, shape, raw buffer; float.hex; type names) and the two lists are compared
for exact equality, case by case.
"""
import io
import os
import pickle
import subprocess
import sys
import tarfile
import tempfile

WORKTREE = os.getcwd()


# --------------------------------------------------------------------------------------------------------------------
# canonical form of results: bit-exact and type-exact
def canon(x):
    import numpy as np
    if isinstance(x, np.ndarray):
        if x.dtype == object:
            return ("ndo", x.shape, tuple(canon(y) for y in x.ravel().tolist()))
        return ("nd", x.dtype.str, x.shape, np.ascontiguousarray(x).tobytes())
    if isinstance(x, np.generic):
        return ("ns", x.dtype.str, x.tobytes())
    if isinstance(x, bool) or x is None or isinstance(x, (int, str, bytes)):
        return (type(x).__name__, x)
    if isinstance(x, float):
        return ("float", x.hex())
    if isinstance(x, (list, tuple)):
        return (type(x).__name__, tuple(canon(y) for y in x))
    if isinstance(x, dict):
        return ("dict", tuple((canon(k), canon(v)) for k, v in x.items()))
    if hasattr(x, "id") and type(x).__name__ == "Coalition":
        return ("Coalition", canon(x.id))
    return ("repr", type(x).__name__, repr(x))


def outcome(fn):
    """Run fn, give ('ok', canonical result) or ('exc', type, message)."""
    try:
        return ("ok", canon(fn()))
    except BaseException as e:  # noqa
        return ("exc", type(e).__name__, str(e))


# --------------------------------------------------------------------------------------------------------------------
def run_cases():
    from functools import partial

    import numpy as np

    from incomplete_cooperative.bounds import BOUNDS
    from incomplete_cooperative.coalitions import (Coalition,
                                                   minimal_game_coalitions)
    from incomplete_cooperative.exploitability import compute_exploitability
    from incomplete_cooperative.game import IncompleteCooperativeGame
    from incomplete_cooperative.generators import (additive,
                                                   covg_fn_generator,
                                                   factory_generator,
                                                   graph_generator,
                                                   k_budget_generator, xos, xs)
    from incomplete_cooperative.icg_gym import ICG_Gym
    from incomplete_cooperative.icg_gym_linear import ICG_Gym_Linear
    from incomplete_cooperative.norms import l1_norm, l2_norm, linf_norm
    from incomplete_cooperative.solvers.greedy import GreedySolver

    results = []

    def rec(name, fn):
        results.append((name, outcome(fn)))

    gaps = {"expl": compute_exploitability, "l1": l1_norm, "l2": l2_norm, "linf": linf_norm}
    bounds = {k: v for k, v in BOUNDS.items() if k not in ("sam_apx_100", "sam_apx_1000")}

    def make_generator(kind, n, seed):
        rng = np.random.default_rng([seed, n])
        if kind == "factory":
            return lambda: factory_generator(n, rng)
        if kind == "noisy_factory":
            return lambda: factory_generator(n, rng, random_weights=True)
        if kind == "xos":
            return lambda: xos(n, rng)
        if kind == "xs":
            return lambda: xs(n, rng)
        if kind == "covg":
            return lambda: covg_fn_generator(n, rng)
        if kind == "k_budget":
            return lambda: k_budget_generator(n, rng)
        if kind == "additive":
            return lambda: additive(n, rng)
        if kind == "graph":
            return lambda: graph_generator(n, rng, dist_fn=lambda shape: rng.random(shape))
        raise KeyError(kind)

    kinds = ["factory", "noisy_factory", "xos", "xs", "covg", "k_budget", "additive", "graph"]

    def gym_snapshot(env):
        return (env.incomplete_game._values.copy(), env.steps_taken, env.state, env.action_masks(),
                [c.id for c in env.explorable_coalitions], [c.id for c in env.initially_known_coalitions],
                env.normalized_game.get_values(), env.full_game.get_values())

    def space_snapshot(env):
        o = env.observation_space
        return (o.low, o.high, str(o.dtype), o.shape, int(env.action_space.n), type(env.action_space.n).__name__)

    case = 0
    # ---- A: construction, reset, random step / unstep walks, greedy solver, for all bounds x gap functions
    for bname, computer in bounds.items():
        for gname, gap in gaps.items():
            for n in [3, 4]:
                for kind in kinds:
                    for seed, limit in enumerate([None, 3, np.int64(2), 0]):
                        if seed >= 2 and (gname not in ("expl", "l2") or n == 4):
                            continue
                        case += 1
                        tag = f"A/{bname}/{gname}/n{n}/{kind}/s{seed}"
                        rng = np.random.default_rng([case, 1])
                        game = IncompleteCooperativeGame(n, computer)
                        extra = [Coalition(int(c)) for c in rng.choice(2**n, size=int(rng.integers(0, 3)))]
                        known = list(minimal_game_coalitions(n)) + extra
                        if seed % 2:
                            known = iter(known)  # the constructor takes any iterable
                        holder = {}

                        def build():
                            holder["env"] = ICG_Gym(game, make_generator(kind, n, case), known, gap, limit)
                            return gym_snapshot(holder["env"]), space_snapshot(holder["env"])
                        rec(tag + "/init", build)
                        env = holder.get("env")
                        if env is None:
                            continue
                        rec(tag + "/reward0", lambda: (env.reward, env.done))
                        rec(tag + "/reset", lambda: (env.reset(seed=int(case)), gym_snapshot(env)))
                        taken = []
                        for step in range(8):
                            masks = env.action_masks()
                            valid = np.flatnonzero(masks)
                            if rng.random() < 0.3 and taken:
                                a = taken.pop(int(rng.integers(len(taken))))
                                rec(f"{tag}/unstep{step}", lambda: (env.unstep(a), gym_snapshot(env)))
                            elif len(valid):
                                a = int(rng.choice(valid))
                                taken.append(a)
                                rec(f"{tag}/step{step}", lambda: (env.step(a), gym_snapshot(env)))
                            if step == 3:
                                for worst in (False, True):
                                    rec(f"{tag}/greedy{worst}", lambda: (GreedySolver(worst=worst).next_step(env),
                                                                         gym_snapshot(env)))
                        # errors: revealing a known coalition, un-revealing an unknown one, action out of range
                        if taken:
                            rec(tag + "/step_known", lambda: env.step(taken[0]))
                            rec(tag + "/after_step_known", lambda: gym_snapshot(env))
                        unknown = np.flatnonzero(env.action_masks())
                        if len(unknown):
                            rec(tag + "/unstep_unknown", lambda: env.unstep(int(unknown[0])))
                            rec(tag + "/after_unstep_unknown", lambda: gym_snapshot(env))
                        rec(tag + "/step_oob", lambda: env.step(10**6))
                        rec(tag + "/unstep_oob", lambda: env.unstep(-10**6))
                        rec(tag + "/step_neg", lambda: (env.step(-1), gym_snapshot(env)))
                        rec(tag + "/reset2", lambda: (env.reset(), gym_snapshot(env)))
                        # play greedily to the end
                        def play():
                            trace = []
                            solver = GreedySolver(worst=bool(seed % 2))
                            for _ in range(2**n):
                                if env.done:
                                    break
                                a = solver.next_step(env)
                                trace.append((a, env.step(a)))
                            return trace, gym_snapshot(env)
                        if n == 3 or gname != "expl":
                            rec(tag + "/greedy_play", play)
                        rec(tag + "/greedy_none_left", lambda: GreedySolver().next_step(env))

    # ---- B: greedy solver on a fake gym: ties, NaN rewards, no valid actions, odd truthiness of `worst`
    class FakeGym:
        def __init__(self, values, masks):
            self.values, self.masks, self.log = values, masks, []

        def action_masks(self):
            self.log.append("masks")
            return np.array(self.masks)

        def step(self, action):
            self.log.append(("step", action))
            return None, self.values[action], False, False, {}

        def unstep(self, action):
            self.log.append(("unstep", action))
            return None, None, False, False, {}

    class Truthy:
        def __init__(self, v):
            self.v, self.calls = v, 0

        def __bool__(self):
            self.calls += 1
            return self.v

    rng = np.random.default_rng(123)
    for i in range(150):
        k = int(rng.integers(0, 7))
        values = rng.integers(-2, 3, size=k).astype(float)
        if i % 5 == 0 and k:
            values[rng.integers(k)] = np.nan
        if i % 7 == 0:
            values = [np.float64(v) for v in values]
        masks = (rng.random(k) < 0.7)
        if i % 11 == 0:
            masks[:] = False
        for worst in (False, True, 0, 1, None, "x"):
            fake = FakeGym(values, masks)
            rec(f"B/{i}/{worst!r}", lambda: (GreedySolver(worst=worst).next_step(fake), fake.log))
        flag = Truthy(bool(i % 2))
        fake = FakeGym(values, masks)
        rec(f"B/{i}/truthy", lambda: (GreedySolver(worst=flag).next_step(fake), fake.log, flag.calls))

    # ---- C: the linear wrapper and gymnasium's checker on top of the gym
    for n in [3, 4]:
        for kind in ["factory", "xos", "graph"]:
            for seed in range(3):
                game = IncompleteCooperativeGame(n, BOUNDS["superadditive_cached"])
                env = ICG_Gym(game, make_generator(kind, n, seed), minimal_game_coalitions(n), l1_norm)
                lin = ICG_Gym_Linear(env, np.random.default_rng(seed))
                tag = f"C/n{n}/{kind}/s{seed}"
                rec(tag + "/reset", lambda: lin.reset())
                for step in range(4):
                    valid = np.flatnonzero(lin.action_masks())
                    if not len(valid):
                        break
                    rec(f"{tag}/step{step}", lambda: (lin.step(int(valid[step % len(valid)])), gym_snapshot(env)))

    return results


# --------------------------------------------------------------------------------------------------------------------
def worker(root, out_path):
    sys.path.insert(0, root)
    import incomplete_cooperative
    origin = os.path.realpath(incomplete_cooperative.__file__)
    assert origin.startswith(os.path.realpath(root) + os.sep), (origin, root)
    results = run_cases()
    with open(out_path, "wb") as f:
        pickle.dump(results, f)


def main():
    with tempfile.TemporaryDirectory(prefix="equiv_T04_") as tmp:
        orig_root = os.path.join(tmp, "orig")
        os.makedirs(orig_root)
        archive = subprocess.run(["git", "-C", WORKTREE, "archive", "HEAD", "incomplete_cooperative"],
                                 check=True, capture_output=True).stdout
        tarfile.open(fileobj=io.BytesIO(archive)).extractall(orig_root)
        outs = {}
        env = dict(os.environ, OMP_NUM_THREADS="1", MKL_NUM_THREADS="1", PYTHONDONTWRITEBYTECODE="1",
                   PYTHONHASHSEED="0")
        for label, root in [("orig", orig_root), ("new", WORKTREE)]:
            out_path = os.path.join(tmp, label + ".pkl")
            subprocess.run([sys.executable, os.path.abspath(__file__), "--worker", root, out_path],
                           check=True, cwd=tmp, env=env)
            with open(out_path, "rb") as f:
                outs[label] = pickle.load(f)
    orig, new = outs["orig"], outs["new"]
    n_exc = sum(1 for _, o in orig if o[0] == "exc")
    if len(orig) != len(new):
        print("DIFFERENT: number of cases", len(orig), len(new))
        return 1
    for (name_o, res_o), (name_n, res_n) in zip(orig, new):
        if name_o != name_n or res_o != res_n:
            print("DIFFERENT")
            print("case:", name_o, name_n)
            print("original  :", repr(res_o)[:2000])
            print("refactored:", repr(res_n)[:2000])
            return 1
    print(f"{len(orig)} cases compared ({n_exc} of them raise), all bit-identical")
    print("EQUIVALENT")
    return 0


if __name__ == "__main__":
    if len(sys.argv) > 1 and sys.argv[1] == "--worker":
        worker(sys.argv[2], sys.argv[3])
    else:
        sys.exit(main())
