#!/venv/bin/python
"""Differential equivalence check for patch_2 (coalitions.py: match statements, functools.reduce, str.format).

Usage:  /venv/bin/python equiv_2.py [tree]      (default tree: /tmp/wt_x4_X02, with the patch applied)

The original package is taken from `git archive HEAD`, the refactored one is the working tree.  Both are run in
separate interpreters; everything they produce is reduced to plain python objects (arrays as dtype/shape/bytes,
coalitions as their class name and id) and pickled; the two pickles have to be byte-equal.  Exit 0 iff identical.
"""
import os
import pickle
import re
import subprocess
import sys
import tempfile

PY = "/venv/bin/python"
DEFAULT_WT = "/tmp/wt_x4_X02"


def norm(x):
    """Reduce an outcome to something that pickles deterministically and compares exactly."""
    import types
    from fractions import Fraction

    import numpy as np

    from incomplete_cooperative.coalitions import Coalition
    if isinstance(x, Coalition):
        return ("Coalition", type(x).__name__, norm(x.id))
    if isinstance(x, np.ndarray):
        return ("nd", x.dtype.str, x.shape, np.ascontiguousarray(x).tobytes())
    if isinstance(x, np.generic):
        return ("sc", type(x).__name__, x.tobytes())
    if isinstance(x, (list, tuple)):
        return (type(x).__name__, [norm(y) for y in x])
    if isinstance(x, (map, types.GeneratorType, filter)):
        return ("iter", type(x).__name__, [norm(y) for y in x])
    if isinstance(x, dict):
        return ("dict", [(norm(k), norm(v)) for k, v in x.items()])
    if isinstance(x, (int, float, str, bool, bytes, type(None), Fraction)):
        return (type(x).__name__, repr(x))
    if x is NotImplemented:
        return ("NotImplemented",)
    raise TypeError(f"cannot normalise {type(x)}")


def attempt(fn, *a, **kw):
    """Call, returning the normalised result or the normalised exception (addresses masked)."""
    try:
        return ("ok", norm(fn(*a, **kw)))
    except BaseException as e:  # noqa
        return ("exc", type(e).__name__, re.sub(r"0x[0-9a-fA-F]+", "0x?", str(e)))


def worker(out_path):
    import operator
    from fractions import Fraction

    import numpy as np

    import incomplete_cooperative.coalitions as C
    from incomplete_cooperative import bounds as B
    from incomplete_cooperative.coalitions import (Coalition, all_coalitions,
                                                   disjoint_coalitions,
                                                   exclude_coalition,
                                                   get_known_coalitions,
                                                   get_sub_coalitions,
                                                   get_super_coalitions,
                                                   grand_coalition,
                                                   minimal_game_coalitions,
                                                   player_to_coalition)
    from incomplete_cooperative.game import IncompleteCooperativeGame
    from incomplete_cooperative.graph_game import GraphCooperativeGame

    out = []
    rec = out.append

    rec(("names", [n for n in ("Coalition", "player_to_coalition", "grand_coalition", "all_coalitions",
                               "minimal_game_coalitions", "exclude_coalition", "get_known_coalitions",
                               "get_sub_coalitions", "get_super_coalitions", "disjoint_coalitions", "powerset",
                               "Game", "IncompleteGame", "Player", "T", "Iterable", "Iterator", "TypeVar")
                   if hasattr(C, n)],
         pickle.dumps(Coalition(5)), pickle.dumps(grand_coalition), pickle.dumps(Coalition.from_players),
         Coalition.__eq__.__doc__, Coalition.__sub__.__doc__, Coalition.__add__.__doc__))

    class IntSub(int):
        """A subclass of int."""

    class CoalitionSub(Coalition):
        """A subclass of coalition."""

    class Weird:
        """Has an id, but is neither an int nor a coalition."""

        id = 6

        def __repr__(self):
            return "Weird()"

        def __format__(self, spec):
            return f"Weird<{spec}>"

    class NoGame:
        """Has a number of players but not the rest of the Game protocol."""

        number_of_players = 3

    class ExplodingGame:
        """Satisfies the protocol structurally; its number of players cannot be read."""

        reads = 0

        @property
        def number_of_players(self):
            ExplodingGame.reads += 1
            raise AttributeError(f"no players (read {ExplodingGame.reads})")

        def get_values(self, coalitions=None): ...
        def get_value(self, coalition): ...
        def copy(self): ...
        def __add__(self, other): ...

    class CountingGame(ExplodingGame):
        """Satisfies the protocol; counts how often the number of players is read."""

        reads = 0

        @property
        def number_of_players(self):
            CountingGame.reads += 1
            return 2 + CountingGame.reads % 2

    # ---- operands -----------------------------------------------------------------------------------------------
    rng = np.random.default_rng(2)
    coalitions = [Coalition(i) for i in range(0, 40)] + [Coalition(int(i)) for i in rng.integers(0, 2**12, 30)] \
        + [CoalitionSub(11), Coalition(2**70 + 5), Coalition(np.int64(13)), Coalition(np.int32(6)), Coalition(-3)]
    others = [0, 1, 2, 3, 5, 11, 63, -1, -2, True, False, IntSub(2), IntSub(0),
              np.int64(2), np.int32(1), np.uint8(3), np.bool_(True), 1.0, 2.5, Fraction(2), "1", b"1", None, [1], (1,),
              {1}, Weird(), 1j, NotImplemented, Ellipsis, object, int] \
        + [Coalition(i) for i in (0, 1, 2, 3, 5, 6, 7, 12, 31, 2**12 - 1)] + [CoalitionSub(3), Coalition(np.int64(5))]

    binary = [("contains", lambda a, b: b in a), ("and", operator.and_), ("or", operator.or_), ("eq", operator.eq),
              ("ne", operator.ne), ("sub", operator.sub), ("add", operator.add),
              ("__eq__", lambda a, b: Coalition.__eq__(a, b)), ("__contains__", lambda a, b: Coalition.__contains__(a, b)),
              ("req", lambda a, b: b == a), ("rsub", lambda a, b: b - a), ("rand", lambda a, b: b & a),
              ("in_list", lambda a, b: b in [a]), ("index", lambda a, b: [Coalition(1), a].index(b))]
    for ai, a in enumerate(coalitions):
        for bi, b in enumerate(others):
            if isinstance(a.id, int) and a.id < 0 and isinstance(b, int) and not isinstance(b, bool) and False:
                continue
            for name, op in binary:
                if name in ("eq", "ne", "__eq__", "req", "in_list", "index") and isinstance(b, int) \
                        and not isinstance(b, Coalition) and a.id < 0:
                    continue  # `players` of a negative id never ends - in both versions
                rec((name, ai, bi, attempt(op, a, b)))
    for ai, a in enumerate(coalitions):
        if a.id >= 0:
            rec(("unary", ai, attempt(len, a), attempt(lambda: list(a.players)), attempt(hash, a),
                 attempt(lambda: a.inverted(7)), attempt(lambda: a.inverted(a)), attempt(lambda: a.inverted(None))))

    # ---- from_players -------------------------------------------------------------------------------------------
    player_lists = [[], [0], [1, 1, 1], [3, 1, 2], range(5), (i for i in (4, 2)), {7, 9}, [True, 2], [0, False],
                    [np.int64(3), np.int64(1)], [np.int32(30), 31], [np.int64(62), np.int64(63)], [np.int64(64), 1],
                    [np.uint8(7), np.uint8(9)], [1.0, 2], [0.5], [Fraction(3), 1], [-1], [-1, 2], [2, -1], ["a"],
                    [None], [[1]], None, 3, "12", [1, "a"], [np.float64(2.0), 3], [100, 200], [np.int8(6), np.int8(7)],
                    np.arange(4), np.array([[1, 2]]), [2**10], [IntSub(3), 3], frozenset([5, 6]), {1: 2, 3: 4},
                    [1j], [np.bool_(True), 4]]
    for pi, players in enumerate(player_lists):
        rec(("from_players", pi, attempt(Coalition.from_players, players)))
    for seed in range(400):
        r = np.random.default_rng([3, seed])
        players = [int(x) for x in r.integers(0, 1 + seed % 20, r.integers(0, 12))]
        rec(("from_players_rand", seed, attempt(Coalition.from_players, players),
             attempt(Coalition.from_players, iter(players)),
             attempt(Coalition.from_players, [np.int64(p) for p in players])))

    # ---- functions over games / numbers of players --------------------------------------------------------------
    games = []
    for n in (1, 2, 3, 4):
        g = IncompleteCooperativeGame(n, B.BOUNDS["superadditive_cached"])
        g.set_values(np.arange(2**n, dtype=float) ** 1.5)
        games.append(g)
        h = IncompleteCooperativeGame(n)
        h.set_known_values(np.arange(n + 2, dtype=float), list(minimal_game_coalitions(n)))
        games.append(h)
        games.append(GraphCooperativeGame(np.arange(n * n, dtype=float).reshape(n, n)))
    things = games + [0, 1, 2, 3, 5, True, np.int64(3), np.int32(2), IntSub(3), 2.0, 1.5, -1, -2, "3", None, [2],
                      NoGame(), NoGame, ExplodingGame(), CountingGame(), Weird(), Fraction(3), Coalition(3)]
    for ti, thing in enumerate(things):
        rec(("grand", ti, attempt(grand_coalition, thing)))
        rec(("all", ti, attempt(all_coalitions, thing)))
        rec(("all_type", ti, attempt(lambda: type(all_coalitions(thing)).__name__)))
        rec(("minimal", ti, attempt(minimal_game_coalitions, thing)))
        rec(("minimal_first", ti, attempt(lambda: next(iter(minimal_game_coalitions(thing))))))
        rec(("inverted", ti, attempt(lambda: Coalition(1).inverted(thing))))
        rec(("super", ti, attempt(get_super_coalitions, Coalition(1), thing)))
        rec(("reads", ti, ExplodingGame.reads, CountingGame.reads))
    for g in games:
        if hasattr(g, "is_value_known"):
            rec(("known", attempt(get_known_coalitions, g)))
    for n in range(0, 7):
        for i in range(2**n):
            c = Coalition(i)
            rec(("subsuper", n, i, attempt(get_sub_coalitions, c), attempt(get_super_coalitions, c, n),
                 attempt(lambda: list(exclude_coalition(c, all_coalitions(n)))),
                 attempt(lambda: [disjoint_coalitions(c, d) for d in all_coalitions(min(n, 4))])))

    # ---- the consumers: bounds and gym use these operators all the time -----------------------------------------
    for n in (3, 4, 5):
        for seed in range(40):
            r = np.random.default_rng([5, n, seed])
            values = r.random(2**n) * 10
            values[0] = 0
            known = {c.id for c in minimal_game_coalitions(n)} | {int(i) for i in np.flatnonzero(r.random(2**n) < r.random())}
            if seed % 9 == 4:
                known.discard(1 << int(r.integers(n)))
            known = sorted(known)
            for name in ("superadditive", "superadditive_cached"):
                game = IncompleteCooperativeGame(n, B.BOUNDS[name])
                game.set_known_values(values[known], map(Coalition, known))
                res = attempt(game.compute_bounds)
                rec(("bounds", n, seed, name, res, norm(game._values)))

    from incomplete_cooperative.exploitability import compute_exploitability
    from incomplete_cooperative.generators import GENERATORS
    from incomplete_cooperative.icg_gym import ICG_Gym
    for n in (3, 4):
        for seed in range(25):
            r = np.random.default_rng([6, n, seed])
            from functools import partial
            game = IncompleteCooperativeGame(n, B.BOUNDS["superadditive_cached"])
            initially = list(minimal_game_coalitions(game)) if seed % 2 else \
                [Coalition(int(i)) for i in r.integers(0, 2**n, 3)] + list(minimal_game_coalitions(n))
            gym = ICG_Gym(game, partial(GENERATORS["noisy_factory"], n, r), initially, compute_exploitability)
            rec(("gym", n, seed, norm([c for c in gym.initially_known_coalitions]),
                 norm(gym.explorable_coalitions), norm(gym.state)))
            for _ in range(4):
                mask = gym.action_masks()
                if not mask.any():
                    break
                action = int(r.choice(np.flatnonzero(mask)))
                rec(("gym_step", n, seed, action, attempt(lambda: gym.step(action)[:4]), norm(game._values)))

    with open(out_path, "wb") as f:
        pickle.dump(out, f, protocol=4)


# --------------------------------------------------------------------------------------------------------------------
# driver
# --------------------------------------------------------------------------------------------------------------------
def main():
    wt = sys.argv[1] if len(sys.argv) > 1 else DEFAULT_WT
    repo = wt if os.path.exists(os.path.join(wt, ".git")) else DEFAULT_WT
    with tempfile.TemporaryDirectory(prefix="equiv2_") as tmp:
        orig = os.path.join(tmp, "orig")
        os.mkdir(orig)
        archive = subprocess.run(["git", "-C", repo, "archive", "HEAD", "incomplete_cooperative"],
                                 check=True, capture_output=True).stdout
        subprocess.run(["tar", "-x", "-C", orig], input=archive, check=True)
        a_path, b_path = os.path.join(tmp, "a.pkl"), os.path.join(tmp, "b.pkl")
        procs = []
        for tree, path in ((orig, a_path), (wt, b_path)):
            env = dict(os.environ, PYTHONPATH=tree, OMP_NUM_THREADS="1", PYTHONHASHSEED="0",
                       PYTHONDONTWRITEBYTECODE="1", PYTHONWARNINGS="ignore")
            procs.append(subprocess.Popen([PY, os.path.abspath(__file__), "--worker", path], env=env,
                                          cwd=tempfile.gettempdir()))
        if any(p.wait() for p in procs):
            print("a worker failed")
            return 2
        a_bytes, b_bytes = open(a_path, "rb").read(), open(b_path, "rb").read()
        a, b = pickle.loads(a_bytes), pickle.loads(b_bytes)
        print(f"original: {len(a)} records, refactored: {len(b)} records")
        bad = 0
        for i, (x, y) in enumerate(zip(a, b)):
            if x != y:
                bad += 1
                if bad <= 10:
                    print("DIFF at record", i, "\n   orig:", repr(x)[:400], "\n   new: ", repr(y)[:400])
        if len(a) != len(b) or bad or a_bytes != b_bytes:
            print(f"NOT EQUIVALENT: {bad} differing records, byte-equal pickles: {a_bytes == b_bytes}")
            return 1
        n_exc = sum(1 for r in a if "('exc'" in repr(r))
        print(f"identical (byte-equal pickles); {n_exc} records contain raised exceptions")
        return 0


if __name__ == "__main__":
    if len(sys.argv) == 3 and sys.argv[1] == "--worker":
        worker(sys.argv[2])
    else:
        sys.exit(main())
