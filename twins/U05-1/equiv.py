"""Differential test for refactoring 1 (exploitability.py / shapley.py: lambdas -> attrgetter / named functions,
starmap(lambda) -> generator expression with tuple unpacking).

Run with cwd=/tmp/wt10/U05.  The ORIGINAL package is taken from git (`git archive HEAD incomplete_cooperative`) into a
temporary directory; the same driver is executed once against that copy and once against the worktree (each in its own
interpreter, so the two copies of `incomplete_cooperative` cannot mix), and the pickled results are compared exactly.
"""
import os
import pickle
import subprocess
import sys
import tempfile
import traceback
from pathlib import Path

WORKTREE = Path("/tmp/wt10/U05")
PYTHON = "/venv/bin/python"


# --------------------------------------------------------------------------------------------------------------------
# driver: runs inside a child interpreter whose sys.path[0] is the root of ONE version of the package
# --------------------------------------------------------------------------------------------------------------------
def _call(fn):
    """Run `fn`, return ('ok', value) or ('exc', type, message)."""
    try:
        return ("ok", fn())
    except BaseException as e:  # noqa
        return ("exc", type(e).__name__, str(e))


def driver(root: str, out: str) -> None:
    sys.path.insert(0, root)
    import numpy as np

    import incomplete_cooperative
    assert Path(incomplete_cooperative.__file__).resolve().parent.parent == Path(root).resolve(), \
        (incomplete_cooperative.__file__, root)
    from incomplete_cooperative import generators
    from incomplete_cooperative.bounds import BOUNDS
    from incomplete_cooperative.coalitions import (Coalition, all_coalitions,
                                                   minimal_game_coalitions)
    from incomplete_cooperative.exploitability import (MaxGainGame,
                                                       compute_exploitability)
    from incomplete_cooperative.game import IncompleteCooperativeGame
    from incomplete_cooperative.generators import GENERATORS
    from incomplete_cooperative.shapley import (
        compute_shapley_value, compute_shapley_value_for_player)

    results = []

    def record(label, fn):
        results.append((label, _call(fn)))

    def reseed_module_generator(seed):
        # the graph generators draw from the module-level, unseeded `_gen`: give it a known state
        generators._gen.bit_generator.state = np.random.default_rng(seed).bit_generator.state
        generators._LAST_OWNER = 0

    def exploitability_bundle(label, game, rng):
        n = game.number_of_players
        record(label + "/exploitability", lambda: compute_exploitability(game))
        for player in range(n):
            mg = MaxGainGame(game, player)
            record(label + f"/maxgain{player}/values", lambda: mg.get_values())
            some = [Coalition(int(c)) for c in rng.integers(0, 2**n, size=int(rng.integers(0, 6)))]
            record(label + f"/maxgain{player}/some", lambda: mg.get_values(some))
            record(label + f"/maxgain{player}/gen", lambda: mg.get_values(c for c in some))
            record(label + f"/maxgain{player}/shapley", lambda: compute_shapley_value_for_player(player, mg))
            record(label + f"/maxgain{player}/value", lambda: [mg.get_value(c) for c in some])

    expensive = {"oxs"}
    names = [g for g in GENERATORS if g != "convex"]  # convex needs the missing pyfmtools
    bounds_names = ["superadditive", "superadditive_cached", "sam_apx_1", "sam_apx_10"]

    # 1. every registry generator, several sizes / seeds, Shapley value of the full game and exploitability of
    #    incomplete games derived from it with every kind of bounds
    for gi, name in enumerate(names):
        for n in (3, 4, 5):
            if name in expensive and n > 4:
                continue
            for seed in (0, 1):
                label = f"gen={name}/n={n}/seed={seed}"
                reseed_module_generator(1000 * gi + 10 * n + seed)
                rng = np.random.default_rng([gi, n, seed])
                full_res = _call(lambda: GENERATORS[name](n, np.random.default_rng(seed + 17 * n)))
                if full_res[0] != "ok":
                    results.append((label + "/generate", full_res))
                    continue
                full = full_res[1]
                record(label + "/values", lambda: full.get_values())
                record(label + "/shapley", lambda: list(compute_shapley_value(full)))
                record(label + "/shapley_single",
                       lambda: [compute_shapley_value_for_player(p, full) for p in range(n)])
                minimal = list(minimal_game_coalitions(n))
                others = [c for c in all_coalitions(n) if c not in set(minimal)]
                bname = bounds_names[(gi + n + seed) % len(bounds_names)]
                for frac in (0.0, 0.5):
                    known = minimal + [c for c in others if rng.random() < frac]
                    inc = IncompleteCooperativeGame(n, BOUNDS[bname])
                    r = _call(lambda: (inc.set_known_values(full.get_values(known), known), inc.compute_bounds()))
                    if r[0] != "ok":
                        results.append((label + f"/{bname}/{frac}/bounds", r[:1] + r[1:]))
                        continue
                    exploitability_bundle(label + f"/{bname}/frac={frac}", inc, rng)

    # 2. arbitrary bounds (not produced by a bounds computer), including negative, huge, inf and nan entries
    for n in (1, 2, 3, 4, 5, 6):
        for seed in range(12):
            rng = np.random.default_rng([99, n, seed])
            game = IncompleteCooperativeGame(n)
            lower = rng.normal(size=2**n) * 10.0**int(rng.integers(-3, 6))
            width = np.abs(rng.normal(size=2**n)) * 10.0**int(rng.integers(-3, 6))
            if seed % 4 == 3:
                width[rng.integers(0, 2**n)] = np.inf
            if seed % 6 == 5:
                lower[rng.integers(0, 2**n)] = np.nan
            known = rng.random(2**n) < 0.4
            known[0] = True
            known[-1] = seed % 5 != 4  # sometimes the grand coalition is unknown: get_value raises
            ids = np.flatnonzero(known)
            game.set_known_values(lower[ids], [Coalition(int(i)) for i in ids])
            game.set_lower_bounds(lower)
            game.set_upper_bounds(lower + width)
            exploitability_bundle(f"arbitrary/n={n}/seed={seed}", game, rng)
            # a full game read through the Shapley code directly
            full = IncompleteCooperativeGame(n)
            full.set_values(lower)
            record(f"arbitrary/n={n}/seed={seed}/full_shapley", lambda: list(compute_shapley_value(full)))
            record(f"arbitrary/n={n}/seed={seed}/full_shapley_single",
                   lambda: [compute_shapley_value_for_player(p, full) for p in range(n)])
            # not fully known game: the Shapley value raises
            record(f"arbitrary/n={n}/seed={seed}/partial_shapley", lambda: list(compute_shapley_value(game)))

    # 3. degenerate calls
    record("degenerate/n=0", lambda: compute_exploitability(IncompleteCooperativeGame(0)))
    record("degenerate/not_a_game", lambda: compute_exploitability(None))
    record("degenerate/shapley_bad_player",
           lambda: compute_shapley_value_for_player(7, IncompleteCooperativeGame(3)))

    def normalise(x):
        if isinstance(x, Coalition):
            return ("Coalition", x.id)
        if isinstance(x, (list, tuple)):
            return type(x)(normalise(y) for y in x)
        return x

    with open(out, "wb") as f:
        pickle.dump([(label, normalise(res)) for label, res in results], f)


# --------------------------------------------------------------------------------------------------------------------
# comparison
# --------------------------------------------------------------------------------------------------------------------
def same(a, b) -> bool:
    import numpy as np
    if type(a) is not type(b):
        return False
    if isinstance(a, np.ndarray):
        return a.dtype == b.dtype and a.shape == b.shape and bool(np.array_equal(a, b, equal_nan=a.dtype.kind in "fc"))
    if isinstance(a, (list, tuple)):
        return len(a) == len(b) and all(same(x, y) for x, y in zip(a, b))
    if isinstance(a, dict):
        return a.keys() == b.keys() and all(same(a[k], b[k]) for k in a)
    if isinstance(a, (float, np.floating)):
        return np.asarray(a).tobytes() == np.asarray(b).tobytes() or (bool(np.isnan(a)) and bool(np.isnan(b)))
    return bool(a == b)


def run_driver(root: Path, out: Path) -> None:
    env = dict(os.environ, OMP_NUM_THREADS="1", MKL_NUM_THREADS="1", PYTHONHASHSEED="0")
    env.pop("PYTHONPATH", None)
    with tempfile.TemporaryDirectory() as cwd:  # neutral cwd: only `root` provides `incomplete_cooperative`
        subprocess.run([PYTHON, "-W", "ignore", str(Path(__file__).resolve()), "--driver", str(root), str(out)],
                       check=True, cwd=cwd, env=env)


def main() -> int:
    with tempfile.TemporaryDirectory() as tmp:
        original_root = Path(tmp) / "original"
        original_root.mkdir()
        archive = subprocess.run(["git", "-C", str(WORKTREE), "archive", "HEAD", "incomplete_cooperative"],
                                 check=True, capture_output=True).stdout
        subprocess.run(["tar", "-x", "-C", str(original_root)], input=archive, check=True)
        out_orig, out_new = Path(tmp) / "orig.pkl", Path(tmp) / "new.pkl"
        run_driver(original_root, out_orig)
        run_driver(WORKTREE, out_new)
        with out_orig.open("rb") as f:
            res_orig = pickle.load(f)
        with out_new.open("rb") as f:
            res_new = pickle.load(f)
    if len(res_orig) != len(res_new):
        print(f"DIFFERENT: number of cases {len(res_orig)} != {len(res_new)}")
        return 1
    n_exc = 0
    for (label_o, r_o), (label_n, r_n) in zip(res_orig, res_new):
        if label_o != label_n or not same(r_o, r_n):
            print("DIFFERENT")
            print("case:", label_o, label_n)
            print("original  :", r_o)
            print("refactored:", r_n)
            return 1
        n_exc += r_o[0] == "exc"
    print(f"{len(res_orig)} cases compared ({n_exc} of them raise the same exception in both versions)")
    print("EQUIVALENT")
    return 0


if __name__ == "__main__":
    if len(sys.argv) > 1 and sys.argv[1] == "--driver":
        try:
            driver(sys.argv[2], sys.argv[3])
        except BaseException:  # noqa
            traceback.print_exc()
            sys.exit(3)
        sys.exit(0)
    sys.exit(main())
