"""Differential test for refactoring 2 (gameplay.py: `x[0]` / `x[1]` -> tuple unpacking / operator.itemgetter,
conditional expression -> if statement, repeated `initial_values.shape[0]` -> named local).

Run with cwd=/tmp/wt10/U05.  The ORIGINAL package is taken from git (`git archive HEAD incomplete_cooperative`) into a
temporary directory; the same driver is executed once against that copy and once against the worktree (each in its own
interpreter, so the two copies of `incomplete_cooperative` cannot mix), and the pickled results are compared exactly.
"""
import os
import pickle
import subprocess
import sys
import tempfile
import traceback
from pathlib import Path

WORKTREE = Path("/tmp/wt10/U05")
PYTHON = "/venv/bin/python"


# --------------------------------------------------------------------------------------------------------------------
# driver: runs inside a child interpreter whose sys.path[0] is the root of ONE version of the package
# --------------------------------------------------------------------------------------------------------------------
def _call(fn):
    """Run `fn`, return ('ok', value) or ('exc', type, message)."""
    try:
        return ("ok", fn())
    except BaseException as e:  # noqa
        return ("exc", type(e).__name__, str(e))


def driver(root: str, out: str) -> None:
    sys.path.insert(0, root)
    import logging

    import numpy as np

    import incomplete_cooperative
    assert Path(incomplete_cooperative.__file__).resolve().parent.parent == Path(root).resolve(), \
        (incomplete_cooperative.__file__, root)
    from incomplete_cooperative import gameplay, generators
    from incomplete_cooperative.bounds import BOUNDS
    from incomplete_cooperative.coalitions import (Coalition, all_coalitions,
                                                   minimal_game_coalitions)
    from incomplete_cooperative.game import IncompleteCooperativeGame
    from incomplete_cooperative.gameplay import (
        get_exploitabilities_of_action_sequence,
        get_exploitabilities_of_action_sequences,
        get_stacked_exploitabilities_of_action_sequences,
        possible_action_sequences, possible_next_actions,
        sample_exploitabilities_of_action_sequences)
    from incomplete_cooperative.generators import GENERATORS
    from incomplete_cooperative.exploitability import compute_exploitability
    from incomplete_cooperative.norms import l1_norm, l2_norm, linf_norm

    # the contents of the GAP_FUNCTIONS registry; `run.model` (which defines it) pulls in torch, which makes every
    # fork of a worker pool slow, so it is imported - and checked against this dict - only for part 3
    GAP_FUNCTIONS = {"exploitability": compute_exploitability, "l1_norm": l1_norm, "l2_norm": l2_norm,
                     "linf_norm": linf_norm}

    results = []

    # the log records (message text without the wall-clock numbers) are an observable effect as well
    log_records = []

    class _Collect(logging.Handler):
        def emit(self, rec):
            import re
            log_records.append((rec.levelname, re.sub(r"[0-9]+(\.[0-9]+)?", "#", rec.getMessage())))
    gameplay.LOGGER.addHandler(_Collect())
    gameplay.LOGGER.setLevel(logging.INFO)
    gameplay.LOGGER.propagate = False

    def record(label, fn):
        del log_records[:]
        res = _call(fn)
        results.append((label, res, list(log_records)))

    def reseed_module_generator(seed):
        generators._gen.bit_generator.state = np.random.default_rng(seed).bit_generator.state
        generators._LAST_OWNER = 0

    def ids(seq):
        return [c.id for c in seq]

    def snapshot(game):
        return game._values.copy()

    gap_names = list(GAP_FUNCTIONS)
    bounds_names = ["superadditive", "superadditive_cached", "sam_apx_1", "sam_apx_10"]
    names = [g for g in GENERATORS if g != "convex"]  # convex needs the missing pyfmtools

    # 1. enumeration of the reveal sets: every pattern of known coalitions for 2 and 3 players (known/unknown masks),
    #    every size limit including None, 0, negative and larger than the number of unknown coalitions
    for n in (1, 2, 3):
        for mask in range(2**(2**n)):
            if n == 3 and mask % 5:
                continue
            game = IncompleteCooperativeGame(n)
            known = [Coalition(i) for i in range(2**n) if mask >> i & 1]
            game.set_known_values(np.arange(len(known), dtype=float), known)
            record(f"enumerate/n={n}/mask={mask}/next", lambda: ids(possible_next_actions(game)))
            for max_size in (None, -2, -1, 0, 1, 2, 3, 2**n, 2**n + 3, True, 1.5, "2"):
                record(f"enumerate/n={n}/mask={mask}/max_size={max_size!r}",
                       lambda: [ids(s) for s in possible_action_sequences(game, max_size)])
    record("enumerate/default_arg", lambda: [ids(s) for s in possible_action_sequences(IncompleteCooperativeGame(2))])
    record("enumerate/keyword", lambda: [ids(s) for s in possible_action_sequences(
        game=IncompleteCooperativeGame(2), max_size=1)])

    # 2. the exhaustive search itself: every registry generator, all gap functions, several bounds, 1 and 2 workers
    for gi, name in enumerate(names):
        for n, max_size in ((3, None), (4, 1), (4, 2)):
            if name == "oxs" and n > 3:
                continue
            for seed in ((0, 1) if max_size != 2 else (gi % 2,)):
                label = f"search/gen={name}/n={n}/max_size={max_size}/seed={seed}"
                gap_name = gap_names[(gi + n + seed + (max_size or 0)) % len(gap_names)]
                bname = bounds_names[(gi + seed) % len(bounds_names)]
                processes = 1 + (gi + seed + n) % 2
                gap = GAP_FUNCTIONS[gap_name]
                label += f"/{gap_name}/{bname}/p={processes}"
                reseed_module_generator(7000 * gi + 10 * n + seed)
                rng = np.random.default_rng([3, gi, n, seed])
                gen_rng = np.random.default_rng(seed + 31 * n)
                full_res = _call(lambda: GENERATORS[name](n, gen_rng))
                if full_res[0] != "ok":
                    results.append((label + "/generate", full_res, []))
                    continue
                full = full_res[1]
                minimal = list(minimal_game_coalitions(n))
                others = [c for c in all_coalitions(n) if c not in set(minimal)]
                known = minimal + [c for c in others if rng.random() < 0.25]
                inc = IncompleteCooperativeGame(n, BOUNDS[bname])
                inc.set_known_values(full.get_values(known), known)

                def search():
                    res = get_exploitabilities_of_action_sequences(inc, full, gap, max_size=max_size,
                                                                   processes=processes)
                    return type(res).__name__, [(ids(s), v) for s, v in res], snapshot(inc)
                record(label + "/all_sequences", search)

                samples = 1 + (gi + seed) % 3

                def sample():
                    acts, vals = sample_exploitabilities_of_action_sequences(
                        inc, lambda k: GENERATORS[name](k, gen_rng), gap, samples=samples,
                        max_size=max_size, processes=processes)
                    return ([ids(s) for s in acts], vals, snapshot(inc), gen_rng.bit_generator.state["state"],
                            generators._gen.bit_generator.state["state"], generators._LAST_OWNER)
                record(label + f"/sample{samples}", sample)

                fulls = [GENERATORS[name](n, gen_rng) for _ in range(3)]
                unknown = list(possible_next_actions(inc))
                seqs = [[], unknown[:1], unknown[:2], unknown[::-1][:3]]

                def one_sequence():
                    res = get_exploitabilities_of_action_sequence(inc, fulls, seqs[2], gap, processes=processes)
                    return type(res).__name__, list(res), snapshot(inc)
                record(label + "/one_sequence", one_sequence)
                record(label + "/one_sequence_generator_of_games", lambda: list(
                    get_exploitabilities_of_action_sequence(inc, (g for g in fulls), seqs[1], gap)))
                record(label + "/stacked", lambda: (list(get_stacked_exploitabilities_of_action_sequences(
                    inc, fulls, seqs, gap, processes)), snapshot(inc)))

    # 3. the callers: best states and greedy through a model instance (with its spawned random streams)
    from incomplete_cooperative.run import model as run_model
    from incomplete_cooperative.run.best_states import get_best_exploitability
    from incomplete_cooperative.run.greedy import get_greedy_rewards
    from incomplete_cooperative.run.model import ModelInstance
    assert run_model.GAP_FUNCTIONS == GAP_FUNCTIONS, run_model.GAP_FUNCTIONS
    cases = [("factory", 4, 2), ("factory_fixed", 4, 3), ("noisy_factory", 4, 2), ("graph_cycle", 4, 2), ("xos", 4, 2),
             ("xs", 3, 3), ("graph_random", 4, 1), ("k_budget_generator", 4, 2), ("covg_fn_generator", 3, 3),
             ("factory_cheerleader_next", 4, 2), ("additive_is_not_registered", 3, 1)]
    for ci, (name, n, limit) in enumerate(cases):
        for seed in (5, 6):
            for gap_name in gap_names[:2] if seed == 5 else gap_names[2:]:
                for reps in (1, 3):
                    label = f"callers/gen={name}/n={n}/limit={limit}/seed={seed}/{gap_name}/reps={reps}"
                    reseed_module_generator(ci + seed)

                    def best():
                        instance = ModelInstance(number_of_players=n, game_generator=name, gap_function=gap_name,
                                                 run_steps_limit=limit, seed=seed, unique_name="u",
                                                 parallel_environments=1 + ci % 2)
                        env = instance.get_env()
                        expl, acts = get_best_exploitability(env, limit, reps, instance.gap_function_callable,
                                                             processes=instance.parallel_environments)
                        return expl, acts, snapshot(env.incomplete_game), \
                            instance.game_generator_rng.bit_generator.state["state"]
                    record(label + "/best_states", best)

                    def greedy():
                        instance = ModelInstance(number_of_players=n, game_generator=name, gap_function=gap_name,
                                                 run_steps_limit=limit, seed=seed, unique_name="u",
                                                 parallel_environments=1 + ci % 2)
                        env = instance.get_env()
                        expl, acts = get_greedy_rewards(env, limit, reps, instance.gap_function_callable,
                                                        instance.parallel_environments)
                        return expl, acts, snapshot(env.incomplete_game)
                    record(label + "/greedy", greedy)

    # 4. error paths
    inc = IncompleteCooperativeGame(3, BOUNDS["superadditive"])
    full = GENERATORS["factory"](3, np.random.default_rng(0))
    inc.set_known_values(full.get_values(list(minimal_game_coalitions(3))), list(minimal_game_coalitions(3)))
    gap = GAP_FUNCTIONS["exploitability"]
    record("errors/samples=0", lambda: sample_exploitabilities_of_action_sequences(
        inc, lambda k: GENERATORS["factory"](k, np.random.default_rng(1)), gap, samples=0))
    record("errors/samples=-1", lambda: sample_exploitabilities_of_action_sequences(
        inc, lambda k: GENERATORS["factory"](k, np.random.default_rng(1)), gap, samples=-1))
    record("errors/unknown_kwarg", lambda: sample_exploitabilities_of_action_sequences(
        inc, lambda k: GENERATORS["factory"](k, np.random.default_rng(1)), gap, samples=1, foo=3))
    record("errors/max_size_float", lambda: sample_exploitabilities_of_action_sequences(
        inc, lambda k: GENERATORS["factory"](k, np.random.default_rng(1)), gap, samples=2, max_size=1.5))
    record("errors/generator_raises", lambda: sample_exploitabilities_of_action_sequences(
        inc, lambda k: 1 / 0, gap, samples=2))
    record("errors/gap_raises", lambda: get_exploitabilities_of_action_sequences(
        inc, full, GAP_FUNCTIONS["exploitability"].__class__, max_size=1))
    bad = IncompleteCooperativeGame(3, BOUNDS["superadditive"])  # singletons unknown: the bounds computer asserts
    record("errors/bounds_assert", lambda: get_exploitabilities_of_action_sequences(bad, full, gap, max_size=1))
    record("errors/bounds_assert_one", lambda: list(get_exploitabilities_of_action_sequence(bad, [full], [], gap)))
    record("errors/smaller_full_game", lambda: get_exploitabilities_of_action_sequences(
        inc, GENERATORS["factory"](2, np.random.default_rng(0)), gap, max_size=1))
    record("errors/processes=0", lambda: get_exploitabilities_of_action_sequences(inc, full, gap, processes=0))

    def normalise(x):
        if isinstance(x, Coalition):
            return ("Coalition", x.id)
        if isinstance(x, (list, tuple)):
            return type(x)(normalise(y) for y in x)
        return x

    with open(out, "wb") as f:
        pickle.dump([(label, normalise(res), logs) for label, res, logs in results], f)


# --------------------------------------------------------------------------------------------------------------------
# comparison
# --------------------------------------------------------------------------------------------------------------------
def same(a, b) -> bool:
    import numpy as np
    if type(a) is not type(b):
        return False
    if isinstance(a, np.ndarray):
        return a.dtype == b.dtype and a.shape == b.shape and bool(np.array_equal(a, b, equal_nan=a.dtype.kind in "fc"))
    if isinstance(a, (list, tuple)):
        return len(a) == len(b) and all(same(x, y) for x, y in zip(a, b))
    if isinstance(a, dict):
        return a.keys() == b.keys() and all(same(a[k], b[k]) for k in a)
    if isinstance(a, (float, np.floating)):
        return np.asarray(a).tobytes() == np.asarray(b).tobytes() or (bool(np.isnan(a)) and bool(np.isnan(b)))
    return bool(a == b)


def run_driver(root: Path, out: Path) -> None:
    env = dict(os.environ, OMP_NUM_THREADS="1", MKL_NUM_THREADS="1", PYTHONHASHSEED="0")
    env.pop("PYTHONPATH", None)
    with tempfile.TemporaryDirectory() as cwd:  # neutral cwd: only `root` provides `incomplete_cooperative`
        subprocess.run([PYTHON, "-W", "ignore", str(Path(__file__).resolve()), "--driver", str(root), str(out)],
                       check=True, cwd=cwd, env=env)


def main() -> int:
    with tempfile.TemporaryDirectory() as tmp:
        original_root = Path(tmp) / "original"
        original_root.mkdir()
        archive = subprocess.run(["git", "-C", str(WORKTREE), "archive", "HEAD", "incomplete_cooperative"],
                                 check=True, capture_output=True).stdout
        subprocess.run(["tar", "-x", "-C", str(original_root)], input=archive, check=True)
        out_orig, out_new = Path(tmp) / "orig.pkl", Path(tmp) / "new.pkl"
        run_driver(original_root, out_orig)
        run_driver(WORKTREE, out_new)
        with out_orig.open("rb") as f:
            res_orig = pickle.load(f)
        with out_new.open("rb") as f:
            res_new = pickle.load(f)
    if len(res_orig) != len(res_new):
        print(f"DIFFERENT: number of cases {len(res_orig)} != {len(res_new)}")
        return 1
    n_exc = 0
    for (label_o, r_o, logs_o), (label_n, r_n, logs_n) in zip(res_orig, res_new):
        if label_o != label_n or not same(r_o, r_n) or logs_o != logs_n:
            print("DIFFERENT")
            print("case:", label_o, label_n)
            print("original  :", r_o)
            print("refactored:", r_n)
            print("log records:", logs_o, logs_n)
            return 1
        n_exc += r_o[0] == "exc"
    if os.environ.get("EQUIV_SHOW_EXC"):
        from collections import Counter
        for key, cnt in Counter((lab.split("/")[0], lab.split("/")[-1][:25], r[1], r[2][:70])
                                for lab, r, _ in res_orig if r[0] == "exc").items():
            print(cnt, key)
    print(f"{len(res_orig)} cases compared ({n_exc} of them raise the same exception in both versions)")
    print("EQUIVALENT")
    return 0


if __name__ == "__main__":
    if len(sys.argv) > 1 and sys.argv[1] == "--driver":
        try:
            driver(sys.argv[2], sys.argv[3])
        except BaseException:  # noqa
            traceback.print_exc()
            sys.exit(3)
        sys.exit(0)
    sys.exit(main())
