"""Differential test for patch 3 (coalitions.py: `if isinstance(..): x = f(x)` re-assignments -> conditional expressions).

Run with cwd=/tmp/wt10/U06.  Loads the ORIGINAL package from `git show HEAD:` into a temp dir and the refactored one from
the worktree; compares the Coalition operators / helpers on exhaustive small inputs and odd operand types, and the two
downstream users named by the properties (Shapley value, regret minimiser) bit for bit.
"""
import atexit
import importlib
import itertools
import os
import shutil
import subprocess
import sys
import tempfile
from fractions import Fraction
from pathlib import Path

import numpy as np

WT = Path.cwd()
PKG = "incomplete_cooperative"
MODS = ("coalitions", "shapley", "regret", "game", "bounds", "exploitability")


def _purge():
    for name in [m for m in sys.modules if m == PKG or m.startswith(PKG + ".")]:
        del sys.modules[name]


def _load(root):
    _purge()
    sys.path.insert(0, str(root))
    try:
        mods = {n: importlib.import_module(f"{PKG}.{n}") for n in MODS}
    finally:
        sys.path.remove(str(root))
    for m in mods.values():
        assert Path(m.__file__).is_relative_to(root), (m.__file__, root)
    _purge()
    return mods


def load_original():
    tmp = Path(tempfile.mkdtemp(prefix="icg_orig_"))
    atexit.register(shutil.rmtree, tmp, ignore_errors=True)
    listing = subprocess.run(["git", "-C", str(WT), "ls-tree", "-r", "--name-only", "HEAD", PKG],
                             check=True, capture_output=True, text=True).stdout.split()
    for rel in listing:
        if "/tests/" in rel or not rel.endswith(".py"):
            continue
        dest = tmp / rel
        dest.parent.mkdir(parents=True, exist_ok=True)
        dest.write_bytes(subprocess.run(["git", "-C", str(WT), "show", f"HEAD:{rel}"],
                                        check=True, capture_output=True).stdout)
    return _load(tmp)


def canon(x):
    """Make a result comparable across the two copies of the package."""
    if type(x).__name__ == "Coalition" and hasattr(x, "id"):
        return ("Coalition", type(x.id).__name__, canon(x.id))
    if isinstance(x, (np.ndarray, np.generic)):
        a = np.asarray(x)
        if a.dtype == object:
            return ("objarr", a.shape, [canon(v) for v in a.ravel().tolist()])
        return ("arr", str(a.dtype), a.shape, a.tobytes())
    if isinstance(x, (list, tuple)):
        return (type(x).__name__, [canon(v) for v in x])
    if isinstance(x, dict):
        return ("dict", [(canon(k), canon(v)) for k, v in x.items()])
    if isinstance(x, float):
        return ("float", "nan" if x != x else x)
    if isinstance(x, (bool, int, str, bytes, type(None), Fraction)):
        return (type(x).__name__, x)
    if hasattr(x, "__next__") or type(x).__name__ in ("map", "generator"):
        return ("iter", type(x).__name__, [canon(v) for v in itertools.islice(x, 5000)])
    return ("other", type(x).__name__, repr(x))


def outcome(fn):
    try:
        return ("ok", canon(fn()))
    except BaseException as e:  # noqa
        return ("exc", type(e).__name__, str(e))


class ArrayGame:
    """Duck-typed Game (satisfies the runtime-checkable protocol)."""

    def __init__(self, n, values):
        self.number_of_players = n
        self.values = values

    def get_values(self, coalitions=None):
        return self.values[[c.id for c in coalitions]]

    def get_value(self, coalition):
        return self.values[coalition.id]

    def copy(self):
        return ArrayGame(self.number_of_players, self.values.copy())

    def __add__(self, other):
        return ArrayGame(self.number_of_players, self.values + other.values)


class HalfGame:
    """Has number_of_players but is NOT a Game for the protocol check."""

    number_of_players = 3


class NpPlayersGame(ArrayGame):
    """A Game whose player count is a NumPy integer."""

    def __init__(self, n):
        super().__init__(np.int64(n), np.zeros(2 ** n))


def coalition_observations(mods):
    """Exhaustive / odd-typed calls of everything the patch touched (plus neighbours)."""
    co = mods["coalitions"]
    C = co.Coalition
    obs = []
    ids = list(range(0, 40)) + [2 ** 20 + 5, 2 ** 70 + 3]
    np_ids = [np.int64(0), np.int64(6), np.int32(9), np.uint8(5)]

    def operands():
        for i in (0, 1, 2, 3, 5, 7, 31, 64, -1, True, False):
            yield ("int", i), (lambda i=i: i)
        for i in (0, 1, 3, 6, 21, 2 ** 70 + 3):
            yield ("coal", i), (lambda i=i: C(i))
        for v in np_ids:
            yield ("npint", int(v), type(v).__name__), (lambda v=v: v)
            yield ("npcoal", int(v), type(v).__name__), (lambda v=v: C(v))
        for v in (None, "a", 1.5, (1,), [0], Fraction(1, 2)):
            yield ("odd", repr(v)), (lambda v=v: v)

    lhs = [C(i) for i in ids] + [C(v) for v in np_ids]
    for left in lhs:
        for tag, make in operands():
            obs.append((("contains", canon(left), tag), outcome(lambda: make() in left)))
            obs.append((("and", canon(left), tag), outcome(lambda: left & make())))
            obs.append((("or", canon(left), tag), outcome(lambda: left | make())))
            obs.append((("sub", canon(left), tag), outcome(lambda: left - make())))
            obs.append((("add", canon(left), tag), outcome(lambda: left + make())))
            obs.append((("eq", canon(left), tag), outcome(lambda: left == make())))
            obs.append((("rand", canon(left), tag), outcome(lambda: make() & left)))
            obs.append((("ror", canon(left), tag), outcome(lambda: make() | left)))
        for n in (0, 1, 3, 6, 80, -1, np.int64(5), "x", None, 2.0):
            obs.append((("inverted", canon(left), repr(n)), outcome(lambda: left.inverted(n))))
        obs.append((("len", canon(left)), outcome(lambda: len(left))))
        obs.append((("players", canon(left)), outcome(lambda: list(left.players))))
        obs.append((("hash", canon(left)), outcome(lambda: hash(left))))
        obs.append((("sub_coalitions", canon(left)), outcome(lambda: list(co.get_sub_coalitions(left)))
                    if len(list(left.players)) < 8 else None))
        for n in (3, 5):
            obs.append((("super", canon(left), n), outcome(lambda: list(co.get_super_coalitions(left, n)))))
        for other in lhs[:12]:
            obs.append((("disjoint", canon(left), canon(other)), outcome(lambda: co.disjoint_coalitions(left, other))))

    icg = mods["game"].IncompleteCooperativeGame
    def game_args():
        for n in range(0, 9):
            yield ("int", n), (lambda n=n: n)
            yield ("icg", n), (lambda n=n: icg(n))
            yield ("dgame", n), (lambda n=n: ArrayGame(n, np.zeros(2 ** n)))
            yield ("npgame", n), (lambda n=n: NpPlayersGame(n))
            yield ("npint", n), (lambda n=n: np.int64(n))
        for v in (-1, -3, True, 2.0, 2.5, "3", None, Fraction(3), np.float64(3.0)):
            yield ("odd", repr(v)), (lambda v=v: v)
        yield ("half", 3), HalfGame
        yield ("dgame-str", 0), (lambda: ArrayGame("3", None))
        yield ("dgame-neg", 0), (lambda: ArrayGame(-2, None))
        yield ("dgame-float", 0), (lambda: ArrayGame(2.0, None))

    for tag, make in game_args():
        obs.append((("grand", tag), outcome(lambda: co.grand_coalition(make()))))
        obs.append((("all", tag), outcome(lambda: co.all_coalitions(make()))))
        obs.append((("all-type", tag), outcome(lambda: type(co.all_coalitions(make())).__name__)))
        obs.append((("minimal", tag), outcome(lambda: list(co.minimal_game_coalitions(make())))))
        obs.append((("exclude", tag), outcome(lambda: list(co.exclude_coalition(C(5), co.all_coalitions(make()))))))
    for players in ([], [0], [0, 0, 2], [3, 1], range(6), [70], [-1], ["a"], [np.int64(2), 2], [True, 1]):
        obs.append((("from_players", repr(players)), outcome(lambda: C.from_players(players))))
    for p in (0, 1, 5, 70, -1, np.int64(3), "a", 1.5, True):
        obs.append((("player_to_coalition", repr(p)), outcome(lambda: co.player_to_coalition(p))))
    return obs


def shapley_observations(mods):
    sh, gm = mods["shapley"], mods["game"]
    obs = []
    for seed in range(8):
        rng = np.random.default_rng(seed)
        for n in range(1, 8):
            for kind in ("normal", "ints", "nan", "fraction"):
                if kind == "normal":
                    v = rng.normal(size=2 ** n) * 10.0 ** rng.integers(-5, 5, 2 ** n)
                elif kind == "ints":
                    v = rng.integers(-9, 9, 2 ** n)
                elif kind == "nan":
                    v = rng.normal(size=2 ** n); v[rng.integers(2 ** n)] = np.nan
                else:
                    if n > 5:
                        continue
                    v = np.array([Fraction(int(a), 7) for a in rng.integers(-30, 30, 2 ** n)], dtype=object)
                v[0] = 0
                game = ArrayGame(n, v)
                obs.append((("shapley", seed, n, kind), outcome(lambda: list(sh.compute_shapley_value(game)))))
                for p in range(n):
                    obs.append((("shapley1", seed, n, kind, p),
                                outcome(lambda: sh.compute_shapley_value_for_player(p, game))))
                if kind == "normal":
                    g = gm.IncompleteCooperativeGame(n)
                    g.set_values(v)
                    obs.append((("shapley-icg", seed, n), outcome(lambda: list(sh.compute_shapley_value(g)))))
                    # bounds of a partially known game use the coalition helpers heavily
                    h = gm.IncompleteCooperativeGame(n, mods["bounds"].compute_bounds_superadditive)
                    known = [c for c in range(2 ** n) if bin(c).count("1") in (0, 1, n) or rng.uniform() < 0.3]
                    obs.append((("bounds", seed, n), outcome(lambda: (
                        h.set_known_values(np.abs(v[known]), map(mods["coalitions"].Coalition, known)),
                        h.compute_bounds(), h.get_upper_bounds(), h.get_lower_bounds())[2:])))
    return obs


def regret_observations(mods):
    rg, co = mods["regret"], mods["coalitions"]
    obs = []
    for n, limits in ((3, (0, 1, 2, 3, 9)), (4, (1, 2, 3)), (5, (1, 2))):
        viable = [c for c in range(2 ** n) if bin(c).count("1") not in (0, 1, n)]
        for limit in limits:
            for plus in (False, True):
                for seed in range(3 if n < 5 else 1):
                    rng = np.random.default_rng(1000 * n + 10 * limit + seed)
                    key = ("rm", n, limit, plus, seed)
                    made = None
                    try:
                        made = rg.GameRegretMinimizer(n, limit, plus=plus)
                    except BaseException as e:  # noqa
                        obs.append((key + ("init",), ("exc", type(e).__name__, str(e))))
                        continue
                    rm = made
                    depth = min(limit, len(viable))
                    terminals = [list(map(co.Coalition, c)) for c in itertools.combinations(viable, depth)]
                    obs.append((key + ("tables",), outcome(lambda: (rm.meta_rank_to_id, rm.coalitions_to_player_ids,
                                                                    rm.number_of_regret_minimizers))))
                    for it in range(5):
                        losses = rng.uniform(0, 1, len(terminals)) * (rng.uniform(size=len(terminals)) < 0.7)
                        obs.append((key + ("iter", it), outcome(lambda: rm.regret_min_iteration(losses, terminals))))
                        obs.append((key + ("state", it), outcome(lambda: (rm.cumulative_regret,
                                                                          rm.cumulative_strategy, rm.iteration))))
                        for rank in range(min(rm.number_of_regret_minimizers, 60)):
                            meta = int(rm.meta_rank_to_id[rank])
                            coals = [co.Coalition(viable[p]) for p in range(len(viable)) if meta >> p & 1]
                            obs.append((key + ("cur", it, rank), outcome(lambda: rm.regret_matching_strategy(meta))))
                            obs.append((key + ("cur2", it, rank), outcome(lambda: rm.regret_matching_strategy(coals))))
                            obs.append((key + ("avg", it, rank), outcome(lambda: rm.get_average_strategy(coals))))
    return obs


def main():
    orig = load_original()
    new = _load(WT)
    assert orig["coalitions"] is not new["coalitions"]
    total = 0
    for name, fn in (("coalitions", coalition_observations), ("shapley", shapley_observations),
                     ("regret", regret_observations)):
        with np.errstate(all="ignore"):
            a = fn(orig)
            b = fn(new)
        if len(a) != len(b):
            print("DIFFERENT"); print(name, "number of observations", len(a), len(b)); return 1
        for (ka, va), (kb, vb) in zip(a, b):
            if ka != kb or va != vb:
                print("DIFFERENT")
                print("group:", name, "case:", ka, kb)
                print(" original  :", va)
                print(" refactored:", vb)
                return 1
        total += len(a)
        print(f"{name}: {len(a)} observations agree")
    print(f"compared {total} observations")
    print("EQUIVALENT")
    return 0


if __name__ == "__main__":
    os.environ.setdefault("OMP_NUM_THREADS", "1")
    sys.exit(main())
