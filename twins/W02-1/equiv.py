"""Differential test for refactoring 1 (bounds.py: NamedTuple structure, sort on a list, registry filled by update).

Run with cwd=/tmp/wt12/W02.  The ORIGINAL package is materialised from `git show HEAD:<path>` into a temporary
directory; the refactored one is the worktree.  Both are run in separate interpreter processes on the same pickled
inputs and the pickled outputs are compared exactly.
"""
import os
import pickle
import subprocess
import sys
import tempfile
from pathlib import Path

import numpy as np

WORKTREE = Path.cwd()
# the refactored tree; the override exists only for negative controls of this script itself
NEW_ROOT = Path(os.environ.get("EQUIV_NEW_ROOT", WORKTREE))
PKG = "incomplete_cooperative"


# --------------------------------------------------------------------------- helpers shared by parent and worker
def materialise_original(target: Path) -> None:
    """Write every file of HEAD:incomplete_cooperative (except tests) below `target`."""
    names = subprocess.run(["git", "-C", str(WORKTREE), "ls-tree", "-r", "--name-only", "HEAD", PKG],
                           check=True, capture_output=True, text=True).stdout.split("\n")
    for name in filter(None, names):
        if not name.endswith(".py") or "/tests/" in name:
            continue
        content = subprocess.run(["git", "-C", str(WORKTREE), "show", f"HEAD:{name}"],
                                 check=True, capture_output=True).stdout
        path = target / name
        path.parent.mkdir(parents=True, exist_ok=True)
        path.write_bytes(content)


def same(a, b) -> bool:
    """Exact structural comparison."""
    if type(a) is not type(b):
        return False
    if isinstance(a, np.ndarray):
        if a.dtype != b.dtype or a.shape != b.shape:
            return False
        if a.dtype.kind == "f":
            return bool(np.array_equal(a, b, equal_nan=True) and np.array_equal(np.signbit(a), np.signbit(b)))
        return bool(np.array_equal(a, b))
    if isinstance(a, (list, tuple)):
        return len(a) == len(b) and all(same(x, y) for x, y in zip(a, b))
    if isinstance(a, dict):
        return list(a.keys()) == list(b.keys()) and all(same(a[k], b[k]) for k in a)
    if isinstance(a, float):
        return (a == b and np.signbit(a) == np.signbit(b)) or (a != a and b != b)
    if isinstance(a, np.generic):
        return a.dtype == b.dtype and same(np.asarray(a), np.asarray(b))
    return a == b


# --------------------------------------------------------------------------- inputs (made by the parent only)
def make_inputs():
    """Games (full value vectors) and knowledge masks."""
    cases = []
    for n in range(2, 7):
        size = 2**n
        sizes = np.array([bin(c).count("1") for c in range(size)])
        minimal = (sizes <= 1) | (sizes == n)
        n_seeds = {2: 6, 3: 14, 4: 14, 5: 10, 6: 6}[n]
        for seed in range(n_seeds):
            rng = np.random.default_rng(1000 * n + seed)
            weights = rng.uniform(0.1, 5, n)
            int_weights = rng.integers(1, 5, n)
            member = (np.arange(size)[:, None] >> np.arange(n)) & 1
            families = {
                "arbitrary": np.concatenate([[0.], rng.normal(0, 3, size - 1)]),
                "convex": (member @ weights) ** 2,
                "int_convex": ((member @ int_weights) ** 2).astype(float),
                "sam_sqrt": -np.sqrt(member @ weights),
                "sam_max": -np.max(member * weights, axis=1),
                "sam_int": -np.max(member * int_weights, axis=1).astype(float),
                "additive": (member @ int_weights).astype(float),
            }
            for family, values in families.items():
                for density in (0.0, 0.3, 0.7):
                    known = minimal | (rng.random(size) < density)
                    cases.append((f"n={n} seed={seed} {family} d={density}", n, values, known))
            # knowledge sets violating the preconditions (exceptions must be identical)
            broken = minimal.copy()
            broken[size - 1] = False
            cases.append((f"n={n} seed={seed} no-grand", n, families["convex"], broken))
            broken = minimal | (rng.random(size) < 0.5)
            broken[1 << int(rng.integers(n))] = False
            cases.append((f"n={n} seed={seed} no-singleton", n, families["sam_sqrt"], broken))
    return cases


# --------------------------------------------------------------------------- worker
def worker(root: str, infile: str, outfile: str) -> None:
    sys.path.insert(0, root)
    from functools import partial

    import incomplete_cooperative
    assert Path(incomplete_cooperative.__file__).resolve().is_relative_to(Path(root).resolve()), incomplete_cooperative.__file__
    from incomplete_cooperative import bounds
    from incomplete_cooperative.coalitions import Coalition
    from incomplete_cooperative.game import IncompleteCooperativeGame

    with open(infile, "rb") as f:
        cases = pickle.load(f)
    out = []
    # the registry: order of keys, kind of entries
    registry = []
    for key, fn in bounds.BOUNDS.items():
        if isinstance(fn, partial):
            registry.append((key, "partial", fn.func.__name__, fn.args, dict(fn.keywords)))
        else:
            registry.append((key, type(fn).__name__, fn.__name__, (), {}))
    out.append(("registry", registry))
    out.append(("registry type", type(bounds.BOUNDS).__name__))
    # the cached structure
    for n in range(1, 7):
        bounds._get_sub_super_coalition_structure.cache_clear()
        structure = bounds._get_sub_super_coalition_structure(n)
        out.append((f"structure n={n}", [np.asarray(x) for x in structure], len(structure), isinstance(structure, tuple)))
        again = bounds._get_sub_super_coalition_structure(n)
        out.append((f"structure cached n={n}", again is structure))
        a, b, c = structure
        out.append((f"structure unpack n={n}", [a, b, c], [structure[0], structure[1], structure[2]]))

    for label, n, values, known in cases:
        for key, computer in bounds.BOUNDS.items():
            if key == "sam_apx_1000" and "seed=0 " not in label and "seed=1 " not in label:
                continue  # 1001 sweeps are slow: two seeds per player count
            if key == "sam_apx_100" and n >= 5 and int(label.split("seed=")[1].split()[0]) >= 4:
                continue
            game = IncompleteCooperativeGame(n, computer)
            game.set_known_values(values[known], [Coalition(int(i)) for i in np.flatnonzero(known)])
            try:
                result = game.compute_bounds()
                outcome = ("ok", result)
            except BaseException as e:  # noqa
                outcome = ("exc", type(e).__name__, str(e))
            out.append((f"{label} {key}", outcome, game._values.copy()))
            # a second computation on the already bounded game (stale bounds as a starting point)
            if n <= 4 and key != "sam_apx_1000":
                try:
                    game.compute_bounds()
                    outcome = ("ok",)
                except BaseException as e:  # noqa
                    outcome = ("exc", type(e).__name__, str(e))
                out.append((f"{label} {key} twice", outcome, game._values.copy()))
    with open(outfile, "wb") as f:
        pickle.dump(out, f)


# --------------------------------------------------------------------------- parent
def main() -> int:
    with tempfile.TemporaryDirectory() as tmp:
        tmp_path = Path(tmp)
        orig_root = tmp_path / "orig"
        materialise_original(orig_root)
        infile = tmp_path / "inputs.pkl"
        cases = make_inputs()
        with infile.open("wb") as f:
            pickle.dump(cases, f)
        results = {}
        env = dict(os.environ, OMP_NUM_THREADS="1", MKL_NUM_THREADS="1", PYTHONDONTWRITEBYTECODE="1")
        for name, root in (("orig", orig_root), ("new", NEW_ROOT)):
            outfile = tmp_path / f"{name}.pkl"
            subprocess.run([sys.executable, __file__, "--worker", str(root), str(infile), str(outfile)],
                           check=True, env=env, cwd=str(tmp_path))
            with outfile.open("rb") as f:
                results[name] = pickle.load(f)
    orig, new = results["orig"], results["new"]
    if len(orig) != len(new):
        print("DIFFERENT: number of records", len(orig), len(new))
        return 1
    for a, b in zip(orig, new):
        if not same(a, b):
            print("DIFFERENT")
            print("original:  ", a)
            print("refactored:", b)
            return 1
    exceptions: dict = {}
    for record in orig:
        if len(record) > 1 and isinstance(record[1], tuple) and record[1] and record[1][0] == "exc":
            exceptions[record[1][1]] = exceptions.get(record[1][1], 0) + 1
    print(f"compared {len(orig)} records from {len(cases)} input cases; identical exceptions among them: {exceptions}")
    print("EQUIVALENT")
    return 0


if __name__ == "__main__":
    if len(sys.argv) > 1 and sys.argv[1] == "--worker":
        worker(*sys.argv[2:5])
    else:
        sys.exit(main())
