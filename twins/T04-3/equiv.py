"""Differential test for refactoring 3 (game.py / norms.py / exploitability.py: NumPy spellings, lambda+map -> generator expressions, named intermediate).

Run with cwd=/tmp/wt9/T04:  OMP_NUM_THREADS=1 /venv/bin/python /tmp/twin_out/T04/equiv_3.py

The ORIGINAL package is taken from git (`git archive HEAD incomplete_cooperative`) into a temporary directory, the
REFACTORED one is the working tree.  The same deterministic list of cases is run in two fresh interpreters (one per
source tree, the wanted tree is put first on sys.path and the origin of the imported package is asserted), every
result is canonicalised down to bytes (dtype, shape, raw buffer; float.hex; type names) and the two lists are compared
for exact equality, case by case.
"""
import io
import os
import pickle
import subprocess
import sys
import tarfile
import tempfile

WORKTREE = os.getcwd()


# --------------------------------------------------------------------------------------------------------------------
# canonical form of results: bit-exact and type-exact
def canon(x):
    import numpy as np
    if isinstance(x, np.ndarray):
        if x.dtype == object:
            return ("ndo", x.shape, tuple(canon(y) for y in x.ravel().tolist()))
        return ("nd", x.dtype.str, x.shape, np.ascontiguousarray(x).tobytes())
    if isinstance(x, np.generic):
        return ("ns", x.dtype.str, x.tobytes())
    if isinstance(x, bool) or x is None or isinstance(x, (int, str, bytes)):
        return (type(x).__name__, x)
    if isinstance(x, float):
        return ("float", x.hex())
    if isinstance(x, (list, tuple)):
        return (type(x).__name__, tuple(canon(y) for y in x))
    if isinstance(x, dict):
        return ("dict", tuple((canon(k), canon(v)) for k, v in x.items()))
    if hasattr(x, "id") and type(x).__name__ == "Coalition":
        return ("Coalition", canon(x.id))
    return ("repr", type(x).__name__, repr(x))


def outcome(fn):
    """Run fn, give ('ok', canonical result) or ('exc', type, message)."""
    try:
        return ("ok", canon(fn()))
    except BaseException as e:  # noqa
        return ("exc", type(e).__name__, str(e))


# --------------------------------------------------------------------------------------------------------------------
def run_cases():
    import numpy as np

    from incomplete_cooperative.bounds import BOUNDS
    from incomplete_cooperative.coalitions import (Coalition,
                                                   minimal_game_coalitions)
    from incomplete_cooperative.exploitability import (MaxGainGame,
                                                       compute_exploitability)
    from incomplete_cooperative.game import IncompleteCooperativeGame
    from incomplete_cooperative.generators import (additive,
                                                   covg_fn_generator,
                                                   factory_generator,
                                                   k_budget_generator, xos, xs)
    from incomplete_cooperative.icg_gym import ICG_Gym
    from incomplete_cooperative.norms import (l1_norm, l2_norm, linf_norm,
                                              lp_norm)

    results = []

    def rec(name, fn):
        results.append((name, outcome(fn)))

    gens = {"factory": factory_generator, "xos": xos, "xs": xs, "covg": covg_fn_generator,
            "k_budget": k_budget_generator, "additive": additive,
            "noisy_factory": lambda n, rng: factory_generator(n, rng, random_weights=True)}
    bounds = {k: v for k, v in BOUNDS.items() if k not in ("sam_apx_100", "sam_apx_1000")}
    ords = [None, 1, 2, np.inf, -np.inf, 0, 0.5, 3, -1, "fro", "nuc"]

    def all_gaps(game):
        return (l1_norm(game), l2_norm(game), linf_norm(game), compute_exploitability(game))

    # ---- A: gap functions and max-gain games along reveal sequences, every bound computer
    case = 0
    for bname, computer in bounds.items():
        for gname, gen in gens.items():
            for n in [3, 4]:
                for seed in range(3):
                    case += 1
                    rng = np.random.default_rng([case, 3])
                    tag = f"A/{bname}/{gname}/n{n}/s{seed}"
                    values = gen(n, rng).get_values().copy()
                    game = IncompleteCooperativeGame(n, computer)
                    minimal = list(minimal_game_coalitions(n))
                    game.set_known_values(values[[c.id for c in minimal]], minimal)
                    game.compute_bounds()
                    unknown = [c for c in range(2**n) if not game.is_value_known(Coalition(c))]
                    order = [int(c) for c in rng.permutation(unknown)]
                    for step in range(min(len(order), 5) + 1):
                        rec(f"{tag}/gaps{step}", lambda: all_gaps(game))
                        rec(f"{tag}/full{step}", lambda: (game.full, game.get_known_values(),
                                                         game.get_known_values(Coalition(c) for c in order)))
                        if step == 1:
                            for o in ords:
                                rec(f"{tag}/lp{o!r}", lambda: lp_norm(game, o))
                            for player in range(n):
                                mg = MaxGainGame(game, player)
                                some = [Coalition(int(c)) for c in rng.choice(2**n, size=4)]
                                rec(f"{tag}/mg{player}", lambda: (
                                    mg._player_mask, mg.get_values(), mg.get_values(some), mg.get_values(iter(some)),
                                    mg.get_values([]), [mg.get_value(c) for c in some], mg.number_of_players))
                        if step < len(order):
                            game.reveal_value(values[order[step]], Coalition(order[step]))
                            game.compute_bounds()
                    # all values revealed
                    game.set_values(values)
                    game.compute_bounds()
                    rec(f"{tag}/gaps_full", lambda: (all_gaps(game), game.full))

    # ---- B: odd inputs of the gap functions: NaN / inf bounds, unknown grand coalition, odd players
    for n in [3, 4]:
        for seed in range(25):
            rng = np.random.default_rng([4, n, seed])
            game = IncompleteCooperativeGame(n)
            game._values[:, 1:3] = rng.normal(size=(2**n, 2)) * 5
            game._values[:, 0] = rng.random(2**n) < 0.5
            if seed % 3 == 0:
                game._values[rng.integers(2**n), 1 + rng.integers(2)] = [np.nan, np.inf, -np.inf][seed % 9 // 3]
            if seed % 2:
                game._values[2**n - 1, 0] = 1
            tag = f"B/n{n}/s{seed}"
            for o in ords:
                rec(f"{tag}/lp{o!r}", lambda: lp_norm(game, o))
            rec(f"{tag}/lp_default", lambda: lp_norm(game))
            rec(f"{tag}/lp_kw", lambda: lp_norm(game=game, ord=2))
            rec(f"{tag}/expl", lambda: compute_exploitability(game))
            rec(f"{tag}/known", lambda: (game.get_known_values(), game.full, game.are_values_known()))
            for player in [0, n - 1, n, -1, np.int64(1), 1.0, "a", None, True]:
                def mg_case():
                    mg = MaxGainGame(game, player)
                    return mg._player_mask, mg.get_values(), mg.get_values([Coalition(1), Coalition(2**n - 1)])
                rec(f"{tag}/mg{player!r}", mg_case)

    # ---- C: random operation sequences on the game table
    def rand_coalitions(rng, n, form):
        k = int(rng.integers(0, 5))
        ids = [int(c) for c in rng.choice(2**n, size=k, replace=bool(rng.integers(2)) or k > 2**n)]
        coalitions = [Coalition(c) for c in ids]
        if form == 0:
            return coalitions, k
        if form == 1:
            return iter(coalitions), k
        if form == 2:
            return tuple(coalitions), k
        return None, 2**n

    for n in [3, 4]:
        for seed in range(40):
            rng = np.random.default_rng([6, n, seed])
            game = IncompleteCooperativeGame(n, bounds[list(bounds)[seed % len(bounds)]])
            tag = f"C/n{n}/s{seed}"
            for step in range(25):
                op = int(rng.integers(0, 14))
                form = int(rng.integers(0, 4))
                coalitions, k = rand_coalitions(rng, n, form)
                if rng.random() < 0.1:
                    k = max(0, k + int(rng.integers(-1, 2)))   # wrong number of values
                vals = rng.normal(size=k) * 3
                cid = Coalition(int(rng.integers(0, 2**n + (1 if rng.random() < 0.05 else 0))))
                name = f"{tag}/{step}/op{op}"
                if op == 0:
                    rec(name, lambda: game.set_upper_bounds(vals, coalitions))
                elif op == 1:
                    rec(name, lambda: game.set_lower_bounds(vals, coalitions))
                elif op == 2:
                    rec(name, lambda: game.get_known_values(coalitions))
                elif op == 3:
                    rec(name, lambda: (game.get_upper_bounds(coalitions), game.full))
                elif op == 4:
                    rec(name, lambda: game.get_lower_bounds(coalitions))
                elif op == 5:
                    rec(name, lambda: game.are_values_known(coalitions))
                elif op == 6:
                    rec(name, lambda: game.get_values(coalitions))
                elif op == 7:
                    rec(name, lambda: game.get_intervals(coalitions))
                elif op == 8:
                    rec(name, lambda: game.set_values(vals, coalitions))
                elif op == 9:
                    rec(name, lambda: game.set_known_values(vals, coalitions))
                elif op == 10:
                    rec(name, lambda: game.set_value(float(rng.normal()), cid))
                elif op == 11:
                    rec(name, lambda: game.unset_value(cid))
                elif op == 12:
                    rec(name, lambda: game.compute_bounds())
                elif op == 13:
                    rec(name, lambda: (all_gaps(game), (-game)._values, game.copy()._values))
                rec(name + "/state", lambda: game._values.copy())

    # ---- D: the gym on top (reward and observation use the touched code)
    for gap_name, gap in [("expl", compute_exploitability), ("l1", l1_norm), ("l2", l2_norm), ("linf", linf_norm)]:
        for bname in ["superadditive", "superadditive_cached", "sam_apx_1"]:
            for seed in range(3):
                n = 4
                rng = np.random.default_rng([8, seed])
                gen_rng = np.random.default_rng([9, seed])
                gname = list(gens)[seed % len(gens)]
                env = ICG_Gym(IncompleteCooperativeGame(n, bounds[bname]), lambda: gens[gname](n, gen_rng),
                              minimal_game_coalitions(n), gap)
                tag = f"D/{gap_name}/{bname}/s{seed}"
                rec(tag + "/reset", lambda: env.reset())
                for step in range(6):
                    valid = np.flatnonzero(env.action_masks())
                    a = int(rng.choice(valid))
                    rec(f"{tag}/step{step}", lambda: env.step(a))
                    if step % 3 == 2:
                        rec(f"{tag}/unstep{step}", lambda: env.unstep(a))

    return results


# --------------------------------------------------------------------------------------------------------------------
def worker(root, out_path):
    sys.path.insert(0, root)
    import incomplete_cooperative
    origin = os.path.realpath(incomplete_cooperative.__file__)
    assert origin.startswith(os.path.realpath(root) + os.sep), (origin, root)
    results = run_cases()
    with open(out_path, "wb") as f:
        pickle.dump(results, f)


def main():
    with tempfile.TemporaryDirectory(prefix="equiv_T04_") as tmp:
        orig_root = os.path.join(tmp, "orig")
        os.makedirs(orig_root)
        archive = subprocess.run(["git", "-C", WORKTREE, "archive", "HEAD", "incomplete_cooperative"],
                                 check=True, capture_output=True).stdout
        tarfile.open(fileobj=io.BytesIO(archive)).extractall(orig_root)
        outs = {}
        env = dict(os.environ, OMP_NUM_THREADS="1", MKL_NUM_THREADS="1", PYTHONDONTWRITEBYTECODE="1",
                   PYTHONHASHSEED="0")
        for label, root in [("orig", orig_root), ("new", WORKTREE)]:
            out_path = os.path.join(tmp, label + ".pkl")
            subprocess.run([sys.executable, os.path.abspath(__file__), "--worker", root, out_path],
                           check=True, cwd=tmp, env=env)
            with open(out_path, "rb") as f:
                outs[label] = pickle.load(f)
    orig, new = outs["orig"], outs["new"]
    n_exc = sum(1 for _, o in orig if o[0] == "exc")
    if len(orig) != len(new):
        print("DIFFERENT: number of cases", len(orig), len(new))
        return 1
    for (name_o, res_o), (name_n, res_n) in zip(orig, new):
        if name_o != name_n or res_o != res_n:
            print("DIFFERENT")
            print("case:", name_o, name_n)
            print("original  :", repr(res_o)[:2000])
            print("refactored:", repr(res_n)[:2000])
            return 1
    print(f"{len(orig)} cases compared ({n_exc} of them raise), all bit-identical")
    print("EQUIVALENT")
    return 0


if __name__ == "__main__":
    if len(sys.argv) > 1 and sys.argv[1] == "--worker":
        worker(sys.argv[2], sys.argv[3])
    else:
        sys.exit(main())
