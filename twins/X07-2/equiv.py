#!/usr/bin/env python
"""Differential equivalence check of patch_2 (bounds.py: frozen dataclass for the cached coalition structure,
pre-selected bound method instead of the per-iteration flag test, np.full, dict union for the registry).

The ORIGINAL package is extracted from git HEAD into a temporary directory, the REFACTORED package is the
worktree (patch applied).  The same driver runs in two separate interpreters, pickles a normalised trace of every
outcome (results, exception types and messages, object state, aliasing facts) and the traces are compared exactly.

Exit status 0 iff the traces are identical.
"""
import os
import pickle
import subprocess
import sys
import tempfile

WORKTREE = os.environ.get("X07_TREE", "/tmp/wt_x4_X07")
GIT_TREE = os.environ.get("X07_GIT", "/tmp/wt_x4_X07")
PYTHON = os.environ.get("X07_PYTHON", "/venv/bin/python")

DRIVER = r'''
import os, pickle, random, sys
import numpy as np

import incomplete_cooperative
EXPECTED = sys.argv[1]
assert os.path.realpath(os.path.dirname(os.path.dirname(incomplete_cooperative.__file__))) == os.path.realpath(EXPECTED), \
    (incomplete_cooperative.__file__, EXPECTED)

from incomplete_cooperative.coalitions import Coalition, all_coalitions, grand_coalition
from incomplete_cooperative.game import IncompleteCooperativeGame
from incomplete_cooperative.bounds import BOUNDS
from incomplete_cooperative.norms import l1_norm, l2_norm, linf_norm
from incomplete_cooperative.exploitability import compute_exploitability
from incomplete_cooperative.normalize import normalize_game
from incomplete_cooperative.icg_gym import ICG_Gym
from incomplete_cooperative import bounds as bounds_module
from functools import partial


def norm(x):
    """Turn an outcome into a plain, exactly comparable structure."""
    if isinstance(x, BaseException):
        return ("exc", type(x).__name__, str(x))
    if isinstance(x, IncompleteCooperativeGame):
        return ("ICG", x.number_of_players, norm(x._values), getattr(x._bounds_computer, "__name__", repr(type(x._bounds_computer))))
    if isinstance(x, Coalition):
        return ("Coalition", norm(x.id))
    if isinstance(x, np.ndarray):
        if x.dtype == object:
            return ("ndobj", x.shape, [norm(e) for e in x.ravel().tolist()])
        return ("nd", x.dtype.str, x.shape, np.ascontiguousarray(x).tobytes())
    if isinstance(x, np.generic):
        return ("npscalar", type(x).__name__, x.dtype.str, x.tobytes())
    if isinstance(x, bool) or x is None or isinstance(x, str) or isinstance(x, bytes):
        return (type(x).__name__, x)
    if isinstance(x, int):
        return ("int", int(x)) if type(x) is int else ("intsub", type(x).__name__, int(x))
    if isinstance(x, float):
        return ("float", x.hex())
    if isinstance(x, (tuple, list)):
        return (type(x).__name__, [norm(e) for e in x])
    if isinstance(x, dict):
        return ("dict", [(norm(k), norm(v)) for k, v in x.items()])
    text = repr(x)
    return ("other", type(x).__name__, text if " at 0x" not in text else "<object with an address>")


TRACE = []


def call(label, fn, *args, **kwargs):
    """Run, record the result or the exception."""
    try:
        r = fn(*args, **kwargs)
    except Exception as e:  # noqa
        TRACE.append((label, norm(e)))
        return e
    TRACE.append((label, norm(r)))
    return r



def structure_arrays(n):
    """The cached structure, whichever container it comes in."""
    s = bounds_module._get_sub_super_coalition_structure(n)
    if isinstance(s, tuple):
        assert len(s) == 3
        return s
    return s.coalitions, s.by_size, s.relation


def convex_values(n, rnd, power):
    weights = [rnd.uniform(0.5, 4) for _ in range(n)]
    return np.array([sum(w for i, w in enumerate(weights) if c >> i & 1)**power for c in range(2**n)])


def superadditive_values(n, rnd):
    """Superadditive, not necessarily monotone nor convex: built bottom up."""
    v = np.zeros(2**n)
    for c in sorted(range(1, 2**n), key=lambda c: bin(c).count("1")):
        if c & (c - 1) == 0:
            v[c] = rnd.uniform(-2, 3)
            continue
        best = max(v[s] + v[c ^ s] for s in range(1, c) if s & c == s)
        v[c] = best + rnd.choice([0.0, 0.0, rnd.uniform(0, 2)])
    return v


def arbitrary_values(n, rnd):
    v = np.array([rnd.uniform(-5, 10) for _ in range(2**n)])
    v[0] = 0
    if rnd.random() < 0.2:
        v[rnd.randrange(2**n)] = float("nan")
    if rnd.random() < 0.2:
        v[rnd.randrange(2**n)] = float("inf")
    return v


COMPUTERS = [("superadditive", BOUNDS["superadditive"]),
             ("superadditive_cached", BOUNDS["superadditive_cached"]),
             ("sam_apx_1", BOUNDS["sam_apx_1"]),
             ("sam_apx_10", BOUNDS["sam_apx_10"]),
             ("direct_cached", bounds_module.compute_bounds_superadditive_cached),
             ("sam_0", partial(bounds_module.compute_bounds_superadditive_monotone_approx_cached, repetitions=0)),
             ("sam_2", lambda g: bounds_module.compute_bounds_superadditive_monotone_approx_cached(g, 2)),
             ("sam_-1", lambda g: bounds_module.compute_bounds_superadditive_monotone_approx_cached(g, -1)),
             ("sam_float", lambda g: bounds_module.compute_bounds_superadditive_monotone_approx_cached(g, 1.0)),
             ("sam_missing", lambda g: bounds_module.compute_bounds_superadditive_monotone_approx_cached(g))]
GAPS = [("exploitability", compute_exploitability), ("l1", l1_norm), ("l2", l2_norm), ("linf", linf_norm)]


def registry_facts():
    TRACE.append(("BOUNDS keys", list(BOUNDS)))
    TRACE.append(("BOUNDS type", type(BOUNDS).__name__))
    for key, value in BOUNDS.items():
        TRACE.append(("BOUNDS", key, type(value).__name__, getattr(value, "__name__", None),
                      getattr(getattr(value, "func", None), "__name__", None),
                      norm(getattr(value, "keywords", None)), norm(getattr(value, "args", None)),
                      pickle.dumps(value, protocol=4)))
    original_names = ['Any', 'BOUNDS', 'BoundableIncompleteGame', 'Coalition', 'CoalitionId', 'GameBoundsComputer',
                      'all_coalitions', 'cache', 'compute_bounds_superadditive', 'compute_bounds_superadditive_cached',
                      'compute_bounds_superadditive_monotone_approx_cached', 'get_all_coalitions', 'get_size',
                      'get_sub_coalitions', 'get_sub_coalitions_id', 'get_super_coalitions',
                      'get_super_coalitions_id', 'np', 'partial', '_get_sub_super_coalition_structure']
    TRACE.append(("names", [(k, hasattr(bounds_module, k)) for k in original_names]))
    for name in ("compute_bounds_superadditive", "compute_bounds_superadditive_cached",
                 "compute_bounds_superadditive_monotone_approx_cached"):
        f = getattr(bounds_module, name)
        TRACE.append(("function", name, f.__module__, f.__qualname__, pickle.dumps(f), f.__code__.co_varnames[:f.__code__.co_argcount]))
    g = IncompleteCooperativeGame(3, BOUNDS["sam_apx_10"])
    TRACE.append(("game pickle", pickle.dumps(g, protocol=4)))


def structures():
    for n in range(0, 8):
        a = call(("structure", n), structure_arrays, n)
        TRACE.append(("structure-cached", n, bounds_module._get_sub_super_coalition_structure(n)
                      is bounds_module._get_sub_super_coalition_structure(n)))
    call(("structure", "bad"), structure_arrays, "x")
    call(("structure", -1), structure_arrays, -1)
    TRACE.append(("cache_info", tuple(bounds_module._get_sub_super_coalition_structure.cache_info())))


def knowledge_sets(n, rnd):
    """Some interesting knowledge sets, as lists of ids."""
    singles = [2**i for i in range(n)]
    top = 2**n - 1
    yield "minimal", sorted({0, top, *singles})
    yield "full", list(range(2**n))
    yield "only-ends", sorted({0, top})
    yield "no-grand", sorted({0, *singles})
    yield "no-empty", sorted({top, *singles})
    for k in range(6):
        extra = rnd.sample(range(2**n), rnd.randint(0, 2**n))
        yield f"random{k}", sorted({0, top, *singles, *extra})
    for k in range(3):
        extra = rnd.sample(range(2**n), rnd.randint(0, 2**n))
        yield f"random-nosingles{k}", sorted({0, top, *extra})


def one_shot():
    for n in range(1, 7):
        for seed in range(5 if n < 6 else 2):
            rnd = random.Random(31 * n + seed)
            for vname, values in (("convex", convex_values(n, rnd, rnd.choice([1.0, 1.5, 2.0]))),
                                  ("superadditive", superadditive_values(n, rnd)),
                                  ("arbitrary", arbitrary_values(n, rnd))):
                for kname, known in knowledge_sets(n, rnd):
                    for cname, computer in COMPUTERS:
                        if cname == "superadditive" and n == 6:
                            continue
                        game = IncompleteCooperativeGame(n, computer)
                        coalitions = [Coalition(i) for i in known]
                        game.set_known_values(values[known], coalitions)
                        if kname == "no-empty":
                            game.unset_value(Coalition(0))
                        label = ("oneshot", n, seed, vname, kname, cname)
                        call(label + ("first",), game.compute_bounds)
                        TRACE.append((label, "after-first", norm(game)))
                        # a second run starts from the bounds the first one left
                        call(label + ("second",), computer, game)
                        TRACE.append((label, "after-second", norm(game)))
                        if cname in ("superadditive_cached", "sam_apx_1"):
                            for gname, gap in GAPS:
                                call(label + (gname,), gap, game)


def reveal_paths():
    for n in range(2, 6):
        for seed in range(5):
            rnd = random.Random(77 * n + seed)
            for vname, values in (("convex", convex_values(n, rnd, rnd.choice([1.0, 1.5, 2.0]))),
                                  ("superadditive", superadditive_values(n, rnd))):
                for name in ("superadditive", "superadditive_cached", "sam_apx_1", "sam_apx_10", "sam_apx_100"):
                    if name == "sam_apx_100" and (n > 4 or seed > 1):
                        continue
                    game = IncompleteCooperativeGame(n, BOUNDS[name])
                    minimal = [Coalition(0), Coalition(2**n - 1)] + [Coalition(2**i) for i in range(n)]
                    game.set_known_values(values[[c.id for c in minimal]], minimal)
                    order = [i for i in range(2**n) if not game.is_value_known(Coalition(i))]
                    rnd.shuffle(order)
                    label = ("reveal", n, seed, vname, name)
                    call(label + ("bounds0",), game.compute_bounds)
                    TRACE.append((label, "start", norm(game)))
                    for i in order:
                        call(label + ("reveal", i), game.reveal_value, values[i], Coalition(i))
                        call(label + ("bounds", i), game.compute_bounds)
                        TRACE.append((label, i, norm(game)))
                        for gname, gap in GAPS:
                            call(label + (gname, i), gap, game)
                    for i in order[:3]:
                        call(label + ("unreveal", i), game.unreveal_value, Coalition(i))
                        call(label + ("bounds-after-unreveal", i), game.compute_bounds)
                        TRACE.append((label, "un", i, norm(game)))


def gym_episodes():
    for n in (3, 4):
        for seed in range(4):
            rnd = random.Random(5 * n + seed)
            values = convex_values(n, rnd, 2.0)
            full = IncompleteCooperativeGame(n)
            full.set_values(values)
            incomplete = IncompleteCooperativeGame(n, BOUNDS[["superadditive_cached", "sam_apx_1", "sam_apx_10", "superadditive"][seed]])
            known = [Coalition(2**i) for i in range(n)]
            gap = [compute_exploitability, l1_norm, l2_norm, linf_norm][seed]
            env = ICG_Gym(incomplete, lambda: full.copy(), known, gap, done_after_n_actions=None if seed < 2 else 3)
            label = ("gym", n, seed)
            call(label + ("reset",), lambda: env.reset()[0])
            actions = list(range(len(env.explorable_coalitions)))
            rnd.shuffle(actions)
            for a in actions:
                call(label + ("step", a), env.step, a)
                TRACE.append((label, a, norm(env.incomplete_game)))
            for a in actions[:2]:
                call(label + ("unstep", a), env.unstep, a)
                TRACE.append((label, "un", a, norm(env.incomplete_game)))


class Recorder:
    """A game wrapper that logs the order of the accesses of the bounds computer."""

    def __init__(self, game, log):
        self._game, self._log = game, log
        self.number_of_players = game.number_of_players

    def __getattr__(self, name):
        attr = getattr(self._game, name)

        def wrapped(*args):
            self._log.append((name, norm(list(args))))
            return attr(*args)
        return wrapped


def access_order():
    for n in (2, 3, 4):
        rnd = random.Random(n)
        values = convex_values(n, rnd, 2.0)
        for cname, computer in COMPUTERS[:7]:
            game = IncompleteCooperativeGame(n)
            minimal = [Coalition(0), Coalition(2**n - 1)] + [Coalition(2**i) for i in range(n)]
            game.set_known_values(values[[c.id for c in minimal]], minimal)
            log = []
            call(("access", n, cname), computer, Recorder(game, log))
            TRACE.append(("access-log", n, cname, log))
            TRACE.append(("access-state", n, cname, norm(game)))


registry_facts()
structures()
one_shot()
reveal_paths()
gym_episodes()
access_order()
TRACE.append(("cache_info-end", tuple(bounds_module._get_sub_super_coalition_structure.cache_info())))
with open(sys.argv[2], "wb") as f:
    pickle.dump(TRACE, f, protocol=4)
print(len(TRACE))
'''


def run(tree, driver, out, tmp):
    env = dict(os.environ, PYTHONPATH=tree, PYTHONHASHSEED="0", OMP_NUM_THREADS="1", PYTHONDONTWRITEBYTECODE="1")
    res = subprocess.run([PYTHON, driver, tree, out], cwd=tmp, env=env, capture_output=True, text=True)
    if res.returncode != 0:
        print(res.stdout)
        print(res.stderr)
        raise SystemExit(f"driver failed on {tree} (exit status {res.returncode})")
    return int(res.stdout.strip().splitlines()[-1])


def first_difference(a, b, path=()):
    if type(a) is not type(b):
        return path, a, b
    if isinstance(a, (list, tuple)):
        if len(a) != len(b):
            return path + ("len",), len(a), len(b)
        for i, (x, y) in enumerate(zip(a, b)):
            d = first_difference(x, y, path + (i,))
            if d is not None:
                return d
        return None
    return None if a == b else (path, a, b)


def main():
    with tempfile.TemporaryDirectory(prefix="x07_equiv2_") as tmp:
        orig = os.path.join(tmp, "orig")
        os.mkdir(orig)
        archive = subprocess.run(["git", "-C", GIT_TREE, "archive", "HEAD", "incomplete_cooperative"],
                                 check=True, capture_output=True).stdout
        subprocess.run(["tar", "-x", "-C", orig], input=archive, check=True)
        driver = os.path.join(tmp, "driver.py")
        with open(driver, "w") as f:
            f.write(DRIVER)
        out_a, out_b = os.path.join(tmp, "a.pkl"), os.path.join(tmp, "b.pkl")
        n_a = run(orig, driver, out_a, tmp)
        n_b = run(WORKTREE, driver, out_b, tmp)
        with open(out_a, "rb") as f:
            bytes_a = f.read()
        with open(out_b, "rb") as f:
            bytes_b = f.read()
        trace_a, trace_b = pickle.loads(bytes_a), pickle.loads(bytes_b)
        diff = first_difference(trace_a, trace_b)
        if diff is not None or n_a != n_b:
            print("DIFFERENT", n_a, n_b)
            if diff is not None:
                path, a, b = diff
                print("at", path)
                if path and isinstance(path[0], int) and path[0] < len(trace_a):
                    print("record (original):  ", repr(trace_a[path[0]])[:600])
                    print("record (refactored):", repr(trace_b[path[0]])[:600])
                print("original:  ", repr(a)[:300])
                print("refactored:", repr(b)[:300])
            return 1
        n_exc = sum(1 for rec in trace_a if isinstance(rec[-1], tuple) and rec[-1][:1] == ("exc",))
        print(f"IDENTICAL: {n_a} records ({n_exc} of them exceptions), byte-equal pickles: {bytes_a == bytes_b}")
        return 0


if __name__ == "__main__":
    sys.exit(main())
