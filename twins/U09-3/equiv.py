"""Differential test for refactoring 3 (game.py: the five `lambda x: x.id` key functions -> one module-level
operator.attrgetter("id")).

Run with cwd=/tmp/wt10/U09.  The ORIGINAL package is extracted from git HEAD into a temporary directory; the same worker
code is run in two sub-processes (PYTHONPATH = original tree / refactored worktree), the pickled results are compared exactly.
"""
import os
import pickle
import subprocess
import sys
import tempfile

import numpy as np

WORKTREE = os.getcwd()


# --------------------------------------------------------------------------------------------------------- worker
def _exc(e):
    return ("EXC", type(e).__name__, str(e))


def worker(root, out_path):
    sys.path.insert(0, root)
    import incomplete_cooperative
    assert os.path.realpath(incomplete_cooperative.__file__).startswith(os.path.realpath(root)), incomplete_cooperative.__file__
    import copy

    from incomplete_cooperative import generators
    from incomplete_cooperative.bounds import BOUNDS
    from incomplete_cooperative.coalitions import (Coalition, all_coalitions,
                                                   minimal_game_coalitions)
    from incomplete_cooperative.exploitability import compute_exploitability
    from incomplete_cooperative.game import IncompleteCooperativeGame
    from incomplete_cooperative.generators import GENERATORS
    from incomplete_cooperative.graph_game import GraphCooperativeGame
    from incomplete_cooperative.icg_gym import ICG_Gym
    from incomplete_cooperative.icg_gym_linear import ICG_Gym_Linear
    from incomplete_cooperative.norms import lp_norm
    from incomplete_cooperative.normalize import (denormalize_game,
                                                  normalize_game)

    results = []

    def call(label, game, fn):
        """Record the result (or the exception) of `fn()` together with the table of the game afterwards."""
        try:
            out = fn()
            if isinstance(out, np.ndarray):
                out = out.copy()
            results.append((label, (out, game._values.copy())))
        except BaseException as e:  # noqa
            results.append((label, (_exc(e), game._values.copy())))

    class WithId:
        def __init__(self, id):
            self.id = id

    class PropId:
        calls = 0

        @property
        def id(self):
            PropId.calls += 1
            return PropId.calls % 4

    # 1. the accessors that take a collection of coalitions, on random partially known games
    rng = np.random.default_rng(11)
    for case in range(120):
        n = int(rng.integers(1, 7))
        size = 2**n
        game = IncompleteCooperativeGame(n, BOUNDS["superadditive"] if case % 2 else (lambda g: None))
        game._values[:, 0] = rng.random(size) < 0.6
        game._values[:, 1] = rng.normal(size=size)
        game._values[:, 2] = np.where(game._values[:, 0] == 1, game._values[:, 1], game._values[:, 1] + rng.random(size))
        k = int(rng.integers(0, size + 1))
        ids = [int(i) for i in rng.integers(0, size, k)]  # with repetitions
        known_ids = [i for i in ids if game._values[i, 0] == 1]
        values = rng.normal(size=k)
        forms = {
            "list": lambda x: [Coalition(i) for i in x], "tuple": lambda x: tuple(Coalition(i) for i in x),
            "gen": lambda x: (Coalition(i) for i in x), "map": lambda x: map(Coalition, x),
            "duck": lambda x: [WithId(i) for i in x], "npint": lambda x: [Coalition(np.int64(i)) for i in x],
        }
        for fname, form in forms.items():
            lab = f"acc {case} n={n} k={k} {fname}"
            g = game.copy()
            call(lab + " get_values", g, lambda: g.get_values(form(known_ids)))
            call(lab + " get_values!", g, lambda: g.get_values(form(ids)))
            call(lab + " upper", g, lambda: g.get_upper_bounds(form(ids)))
            call(lab + " lower", g, lambda: g.get_lower_bounds(form(ids)))
            call(lab + " intervals", g, lambda: g.get_intervals(form(ids)))
            call(lab + " known?", g, lambda: g.are_values_known(form(ids)))
            call(lab + " known values", g, lambda: g.get_known_values(form(ids)))
            call(lab + " map", g, lambda: g._get_coalition_map(form(ids)))
            call(lab + " map count", g, lambda: g._get_coalition_map(form(ids), k))
            call(lab + " map short", g, lambda: g._get_coalition_map(form(ids), max(k - 1, 0)))
            call(lab + " map long", g, lambda: g._get_coalition_map(form(ids), k + 1))
            g = game.copy()
            call(lab + " set_upper", g, lambda: g.set_upper_bounds(values, form(ids)))
            call(lab + " set_lower", g, lambda: g.set_lower_bounds(values, form(ids)))
            call(lab + " set_upper short", g, lambda: g.set_upper_bounds(values[:-1], form(ids)))
            call(lab + " set_lower long", g, lambda: g.set_lower_bounds(np.append(values, 1.), form(ids)))
            g = game.copy()
            call(lab + " set_values", g, lambda: g.set_values(values, form(ids)))
            call(lab + " set_values short", g, lambda: g.set_values(values[:-1], form(ids)))
            call(lab + " set_values scalar", g, lambda: g.set_values(3.5, form(ids[:1])))
            g = game.copy()
            call(lab + " set_known", g, lambda: g.set_known_values(values, form(ids)))
            call(lab + " set_known self", g, lambda: g.set_known_values(g.get_upper_bounds(form(ids)), form(ids)))
            call(lab + " bounds", g, g.compute_bounds)
        # things that are not coalitions, ids outside the table, negative ids, a property with side effects
        g = game.copy()
        for bname, bad in (("ints", [0, 1]), ("none", [None]), ("str", ["a"]), ("mixed", [Coalition(0), 1]),
                           ("out", [Coalition(size)]), ("neg", [Coalition(-1)]), ("float", [WithId(1.5)]),
                           ("strid", [WithId("1")]), ("noniter", 5), ("coalition", Coalition(1)),
                           ("prop", [PropId(), PropId(), PropId()]), ("empty", [])):
            lab = f"bad {case} n={n} {bname}"
            PropId.calls = 0
            call(lab + " upper", g, lambda: g.get_upper_bounds(bad))
            call(lab + " known?", g, lambda: g.are_values_known(bad))
            call(lab + " get_values", g, lambda: g.get_values(bad))
            call(lab + " map", g, lambda: g._get_coalition_map(bad))
            call(lab + " set_values", g, lambda: g.set_values(np.ones(np.size(bad)), bad))
            call(lab + " set_upper", g, lambda: g.set_upper_bounds(np.ones(np.size(bad)), bad))
            call(lab + " set_lower", g, lambda: g.set_lower_bounds(np.ones(np.size(bad)), bad))
            results.append((lab + " prop calls", PropId.calls))

    # games survive copying / pickling in the same way
    g = IncompleteCooperativeGame(3, BOUNDS["superadditive"])
    g.set_values(np.arange(8.))
    for clone in (copy.copy(g), copy.deepcopy(g), pickle.loads(pickle.dumps(g)), g.copy()):
        results.append(("clone", (clone._values.copy(), clone.get_values([Coalition(3), Coalition(5)]))))

    # 2. normalisation of every registry entry (property C15) ...
    def snapshot(game):
        if isinstance(game, GraphCooperativeGame):
            return ("graph", game._graph_matrix.copy(), game.get_values())
        return ("icg", game._values.copy())

    for name in sorted(GENERATORS):
        if name == "convex":  # needs pyfmtools, which is not installed
            continue
        for n in (3, 4, 5):
            for seed in (0, 1):
                generators._gen.bit_generator.state = np.random.default_rng(1000 * seed + n).bit_generator.state
                generators._LAST_OWNER = 0
                game_rng = np.random.default_rng(seed)
                lab = f"reg {name} n={n} seed={seed}"
                try:
                    game = GENERATORS[name](n, game_rng)
                    trace = [snapshot(game)]
                    for g in ([game.copy()] if not isinstance(game, GraphCooperativeGame) else
                              [game.copy(), IncompleteCooperativeGame(n)]):
                        if not isinstance(g, GraphCooperativeGame) and not g.full:  # the tabulated form of a graph game
                            g.set_values(game.get_values(), all_coalitions(n))
                        info = normalize_game(g)
                        trace += [info, snapshot(g)]
                        denormalize_game(g, info)
                        trace.append(snapshot(g))
                    results.append((lab, trace))
                except Exception as e:  # noqa
                    results.append((lab, _exc(e)))
                # ... and an episode of the full and of the size-aggregated environment (property C16)
                if seed == 0 and n < 5:
                    try:
                        ig = IncompleteCooperativeGame(n, BOUNDS[("superadditive", "superadditive_cached")[n % 2]])
                        env = ICG_Gym(ig, lambda: GENERATORS[name](n, game_rng), minimal_game_coalitions(ig),
                                      (lp_norm, compute_exploitability)[n % 2])
                        lin = ICG_Gym_Linear(env, np.random.default_rng(seed + 3))
                        trace = [lin.reset()[0], env.state, env.action_masks(), lin.action_masks()]
                        policy = np.random.default_rng(5)
                        while lin.action_masks().any():
                            size = int(policy.choice(np.arange(n)[lin.action_masks()]))
                            trace.append((size, tuple(lin.step(size)), env.state, env.action_masks(), lin.action_masks(),
                                          ig._values.copy()))
                        action = len(env.explorable_coalitions) - 1
                        trace.append(tuple(env.unstep(action)))
                        trace.append(tuple(env.step(action)))
                        results.append((lab + " env", trace))
                    except Exception as e:  # noqa
                        results.append((lab + " env", _exc(e)))

    with open(out_path, "wb") as f:
        pickle.dump(results, f)


# --------------------------------------------------------------------------------------------------------- driver
def same(a, b):
    if type(a) is not type(b):
        return False
    if isinstance(a, np.ndarray):
        if a.dtype != b.dtype or a.shape != b.shape:
            return False
        if a.dtype.kind in "fc":
            return bool(np.array_equal(a, b, equal_nan=True)) and bool(np.array_equal(np.signbit(a), np.signbit(b)))
        return bool(np.array_equal(a, b))
    if isinstance(a, (tuple, list)):
        return len(a) == len(b) and all(same(x, y) for x, y in zip(a, b))
    if isinstance(a, dict):
        return a.keys() == b.keys() and all(same(a[k], b[k]) for k in a)
    if isinstance(a, (float, np.floating)):
        return (a == b or (np.isnan(a) and np.isnan(b))) and np.signbit(a) == np.signbit(b)
    if hasattr(a, "_graph_matrix"):
        return same(a._graph_matrix, b._graph_matrix)
    if hasattr(a, "_values"):
        return same(a._values, b._values)
    return a == b


def main():
    with tempfile.TemporaryDirectory() as tmp:
        orig = os.path.join(tmp, "orig")
        os.makedirs(orig)
        archive = subprocess.run(["git", "-C", WORKTREE, "archive", "HEAD", "incomplete_cooperative"],
                                 check=True, capture_output=True).stdout
        subprocess.run(["tar", "-x", "-C", orig], input=archive, check=True)
        outs = []
        for tag, root in (("orig", orig), ("new", WORKTREE)):
            out = os.path.join(tmp, tag + ".pkl")
            env = dict(os.environ, OMP_NUM_THREADS="1", MKL_NUM_THREADS="1", PYTHONPATH=root, PYTHONHASHSEED="0",
                       PYTHONDONTWRITEBYTECODE="1")
            subprocess.run([sys.executable, os.path.abspath(__file__), "--worker", root, out], check=True, env=env, cwd=root)
            sys.path.insert(0, root)  # only needed to unpickle game objects in info dicts
            with open(out, "rb") as f:
                outs.append(pickle.load(f))
            sys.path.pop(0)
            for mod in [m for m in sys.modules if m.startswith("incomplete_cooperative")]:
                del sys.modules[mod]
    a, b = outs
    if len(a) != len(b):
        print("DIFFERENT: number of cases", len(a), len(b))
        return 1
    n_exc = 0
    for (la, ra), (lb, rb) in zip(a, b):
        if la != lb or not same(ra, rb):
            print("DIFFERENT at case", la, lb)
            print(" original  :", ra)
            print(" refactored:", rb)
            return 1
        n_exc += isinstance(ra, tuple) and len(ra) == 3 and ra[0] == "EXC"
    print(f"{len(a)} cases compared ({n_exc} of them identical exceptions)")
    print("EQUIVALENT")
    return 0


if __name__ == "__main__":
    if len(sys.argv) > 1 and sys.argv[1] == "--worker":
        worker(sys.argv[2], sys.argv[3])
    else:
        sys.exit(main())
