"""Differential test for refactoring 3 (NumPy spellings in coalition_ids.py and the cached bound computer of bounds.py).

Run with cwd=/tmp/wt9/T01.  Loads the ORIGINAL package modules from `git show HEAD:<path>` into a temporary package
`ic_orig`, the working-tree modules into `ic_new`, and compares them exactly.
"""
import importlib
import os
import subprocess
import sys
import shutil
import tempfile
import warnings

import numpy as np

REPO = os.getcwd()
PKG = "incomplete_cooperative"
MODULES = ["__init__", "protocols", "functoolz", "coalitions", "coalition_ids", "game", "bounds", "game_properties"]


def _materialise(name: str, original: bool, root: str) -> None:
    target = os.path.join(root, name)
    os.makedirs(target)
    for mod in MODULES:
        rel = f"{PKG}/{mod}.py"
        if original:
            src = subprocess.run(["git", "-C", REPO, "show", f"HEAD:{rel}"], check=True, capture_output=True).stdout
        else:
            with open(os.path.join(REPO, rel), "rb") as f:
                src = f.read()
        with open(os.path.join(target, f"{mod}.py"), "wb") as f:
            f.write(src)


class Pkg:
    def __init__(self, name):
        self.name = name
        self.bounds = importlib.import_module(f"{name}.bounds")
        self.game = importlib.import_module(f"{name}.game")
        self.coalitions = importlib.import_module(f"{name}.coalitions")
        self.coalition_ids = importlib.import_module(f"{name}.coalition_ids")
        self.game_properties = importlib.import_module(f"{name}.game_properties")
        self.Recording = make_recording(self)


LOGGED = ["is_value_known", "are_values_known", "get_lower_bounds", "get_upper_bounds", "get_values", "get_known_values",
          "set_lower_bound", "set_upper_bound", "set_lower_bounds", "set_upper_bounds", "get_lower_bound",
          "get_upper_bound", "get_value", "set_value", "set_values", "unset_value"]


def _plain(pkg, x):
    if isinstance(x, pkg.coalitions.Coalition):
        return ("C", int(x.id))
    if isinstance(x, np.ndarray):
        return ("A", str(x.dtype), x.shape, x.tobytes())
    if isinstance(x, np.generic):
        return ("S", type(x).__name__, x.tobytes())
    if isinstance(x, (list, tuple)):
        return ("L", tuple(_plain(pkg, y) for y in x))
    return ("O", type(x).__name__, repr(x))


def make_recording(pkg):
    """Subclass of the package's game that records every protocol call made on it (name, arguments, result)."""
    base = pkg.game.IncompleteCooperativeGame

    class Recording(base):
        def __init__(self, *a, **k):
            self.log = []
            self.recording = False
            super().__init__(*a, **k)

    def wrap(method_name):
        orig = getattr(base, method_name)

        def method(self, *args, **kwargs):
            args = tuple(list(a) if (a is not None and not isinstance(a, (np.ndarray, np.generic, int, float,
                                                                           pkg.coalitions.Coalition))
                                     and hasattr(a, "__iter__")) else a for a in args)
            if not self.recording:
                return orig(self, *args, **kwargs)
            self.recording = False  # do not log nested calls of the game itself
            try:
                result = orig(self, *args, **kwargs)
            finally:
                self.recording = True
            self.log.append((method_name, _plain(pkg, list(args)), _plain(pkg, sorted(kwargs.items())),
                             _plain(pkg, result)))
            return result
        return method

    for m in LOGGED:
        setattr(Recording, m, wrap(m))
    return Recording


# ---------------------------------------------------------------- inputs
def _proper_splits(s):
    sub = (s - 1) & s
    while sub:
        yield sub, s ^ sub
        sub = (sub - 1) & s


def gen_values(kind: str, n: int, rng: np.random.Generator) -> np.ndarray:
    size = 2**n
    by_size = sorted(range(size), key=lambda c: bin(c).count("1"))
    v = np.zeros(size)
    if kind in ("int_sa", "float_sa", "tight_sa"):
        for c in by_size[1:]:
            best = max((v[a] + v[b] for a, b in _proper_splits(c)), default=0.0)
            if kind == "int_sa":
                v[c] = best + rng.integers(0, 6)
            elif kind == "float_sa":
                v[c] = best + rng.random() * 3
            else:
                v[c] = best + (rng.integers(0, 2) if bin(c).count("1") > 1 else rng.integers(0, 4))
    elif kind == "convex":
        w = rng.random(n) * 4
        for c in range(size):
            v[c] = sum(w[i] for i in range(n) if c >> i & 1) ** 2
    elif kind == "additive":
        w = rng.integers(-3, 8, n).astype(float)
        for c in range(size):
            v[c] = sum(w[i] for i in range(n) if c >> i & 1)
    elif kind == "random":
        v = rng.normal(size=size) * 10
        v[0] = 0
    elif kind == "special":
        v = rng.normal(size=size)
        v[rng.integers(1, size)] = np.inf
        v[rng.integers(1, size)] = -np.inf
        v[rng.integers(1, size)] = np.nan
        v[rng.integers(1, size)] = -0.0
        v[0] = 0
    else:
        raise AssertionError(kind)
    return v


def gen_known(mode: str, n: int, rng: np.random.Generator) -> list[int]:
    size = 2**n
    minimal = {0, size - 1} | {2**i for i in range(n)}
    if mode == "minimal":
        known = set(minimal)
    elif mode == "full":
        known = set(range(size))
    elif mode == "extra":
        density = rng.random()
        known = minimal | {c for c in range(size) if rng.random() < density}
    elif mode == "broken":  # something of the minimal information is missing -> assertion / ValueError paths
        density = rng.random()
        known = minimal | {c for c in range(size) if rng.random() < density}
        pool = sorted(minimal - {0})
        drop = rng.choice(pool, size=min(len(pool), int(rng.integers(1, 3))), replace=False)
        known -= set(int(d) for d in drop)
    else:
        raise AssertionError(mode)
    known = sorted(known)
    rng.shuffle(known)
    return [int(k) for k in known]


# ---------------------------------------------------------------- comparison
class Different(Exception):
    pass


def outcome(fn):
    try:
        return ("ok", fn())
    except BaseException as e:  # noqa
        return ("exc", type(e).__name__, str(e))


def same_array(a, b):
    a, b = np.asarray(a), np.asarray(b)
    return (a.dtype == b.dtype and a.shape == b.shape and np.array_equal(a, b, equal_nan=a.dtype.kind == "f")
            and (a.dtype.kind != "f" or np.array_equal(np.signbit(a), np.signbit(b))))


def snapshot(pkg, game):
    was_recording = getattr(game, "recording", False)
    if was_recording:
        game.recording = False
    try:
        return _snapshot(game)
    finally:
        if was_recording:
            game.recording = True


def _snapshot(game):
    return {
        "_values": np.copy(game._values),
        "lower": np.copy(game.get_lower_bounds()),
        "upper": np.copy(game.get_upper_bounds()),
        "intervals": np.copy(game.get_intervals()),
        "known": np.copy(game.are_values_known()),
        "known_values": np.copy(game.get_known_values()),
    }


def compare_state(ctx, po, go, pn, gn):
    so, sn = snapshot(po, go), snapshot(pn, gn)
    for key in so:
        if not same_array(so[key], sn[key]):
            raise Different(f"{ctx}: state '{key}' differs\n orig={so[key]!r}\n new ={sn[key]!r}")
    if hasattr(go, "log"):
        if go.log != gn.log:
            for i, (x, y) in enumerate(zip(go.log, gn.log)):
                if x != y:
                    raise Different(f"{ctx}: call #{i} on the game differs\n orig={x!r}\n new ={y!r}")
            raise Different(f"{ctx}: number of calls on the game differs: {len(go.log)} vs {len(gn.log)}")


def run_scenario(ctx, po, pn, computer_name, n, values, known, ops_seed, recording):
    """Same scenario on both packages; compare after every step."""
    games = []
    for p in (po, pn):
        cls = p.Recording if recording else p.game.IncompleteCooperativeGame
        g = cls(n, p.bounds.BOUNDS[computer_name])
        g.set_known_values(values[known], [p.coalitions.Coalition(c) for c in known])
        if recording:
            g.recording = True
        games.append(g)
    go, gn = games

    def both(step, fo, fn_):
        ro, rn = outcome(fo), outcome(fn_)
        if ro[0] != rn[0] or (ro[0] == "exc" and ro != rn):
            raise Different(f"{ctx} step {step}: outcome differs\n orig={ro!r}\n new ={rn!r}")
        compare_state(f"{ctx} step {step}", po, go, pn, gn)
        return ro

    both("compute0", go.compute_bounds, gn.compute_bounds)
    rng = np.random.default_rng(ops_seed)
    size = 2**n
    steps = 0
    for step in range(8):
        op = rng.choice(["reveal", "unreveal", "compute", "compute", "reset", "copy", "neg"])
        if op == "reveal":
            unknown = np.flatnonzero(go._values[:, 0] != 1)
            if len(unknown) == 0:
                continue
            c = int(rng.choice(unknown))
            both(f"{step}:reveal{c}", lambda: go.reveal_value(values[c], po.coalitions.Coalition(c)),
                 lambda: gn.reveal_value(values[c], pn.coalitions.Coalition(c)))
        elif op == "unreveal":
            cands = [c for c in np.flatnonzero(go._values[:, 0] == 1)]
            if rng.random() < 0.85:  # mostly keep the minimal information
                cands = [c for c in cands if c not in (0, size - 1) and bin(c).count("1") > 1]
            if not cands:
                continue
            c = int(rng.choice(cands))
            both(f"{step}:unreveal{c}", lambda: go.unreveal_value(po.coalitions.Coalition(c)),
                 lambda: gn.unreveal_value(pn.coalitions.Coalition(c)))
        elif op == "compute":
            both(f"{step}:compute", go.compute_bounds, gn.compute_bounds)
        elif op == "reset":
            new_known = gen_known(rng.choice(["minimal", "extra", "extra", "full"]), n, rng)
            both(f"{step}:reset", lambda: go.set_known_values(values[new_known],
                                                              [po.coalitions.Coalition(c) for c in new_known]),
                 lambda: gn.set_known_values(values[new_known], [pn.coalitions.Coalition(c) for c in new_known]))
            both(f"{step}:reset-compute", go.compute_bounds, gn.compute_bounds)
        elif op == "copy" and not recording:
            go, gn = go.copy(), gn.copy()
            both(f"{step}:copy-compute", go.compute_bounds, gn.compute_bounds)
        elif op == "neg" and not recording:
            no, nn = -go, -gn
            compare_state(f"{ctx} step {step}:neg", po, no, pn, nn)
        steps += 1
    return steps



# ---------------------------------------------------------------- direct tests of the coalition-id helpers
def _same_result(a, b) -> bool:
    if type(a) is not type(b):
        return False
    if isinstance(a, tuple):
        return len(a) == len(b) and all(_same_result(x, y) for x, y in zip(a, b))
    if isinstance(a, (np.ndarray, np.generic)):
        return same_array(a, b) and np.asarray(a).tobytes() == np.asarray(b).tobytes()
    return a == b


def run_id_tests(po, pn) -> int:
    cases = 0
    fns = ["players", "get_size", "sub_coalitions", "super_coalitions"]
    casts = [int, np.int32, np.int64, np.uint8, np.int16]
    for n in range(0, 9):
        n_variants = [n, np.int64(n), np.int32(n)]
        ro = outcome(lambda: po.coalition_ids.get_all_coalitions(n))
        rn = outcome(lambda: pn.coalition_ids.get_all_coalitions(n))
        if ro[0] != rn[0] or not _same_result(ro[1], rn[1]):
            raise Different(f"[get_all_coalitions n={n}] orig={ro!r} new={rn!r}")
        for coalition in list(range(0, 2**n + 3)) + [-1, -2, 2**n + 17]:
            for cast in casts:
                try:
                    c = cast(coalition)
                except (OverflowError, ValueError):
                    continue
                if isinstance(c, np.generic) and int(c) != coalition:
                    continue
                for nv in (n_variants if coalition % 5 == 0 else n_variants[:1]):
                    for fn in fns:
                        ro = outcome(lambda: getattr(po.coalition_ids, fn)(c, nv))
                        rn = outcome(lambda: getattr(pn.coalition_ids, fn)(c, nv))
                        ok = ro[0] == rn[0] and (_same_result(ro[1], rn[1]) if ro[0] == "ok" else ro == rn)
                        if not ok:
                            raise Different(f"[{fn} coalition={c!r} ({cast.__name__}) n={nv!r}]\n orig={ro!r}\n new ={rn!r}")
                        cases += 1
    # wrong argument kinds: identical exceptions
    for args in [(np.array([1, 2]), 3), (1.5, 3), ("a", 3), (3, 2.0), (None, 2), (3, -1), (1, 40), (2**40, 41)]:
        for fn in fns:
            ro = outcome(lambda: getattr(po.coalition_ids, fn)(*args))
            rn = outcome(lambda: getattr(pn.coalition_ids, fn)(*args))
            ok = ro[0] == rn[0] and (_same_result(ro[1], rn[1]) if ro[0] == "ok" else ro == rn)
            if not ok:
                raise Different(f"[{fn} args={args!r}]\n orig={ro!r}\n new ={rn!r}")
            cases += 1
    # the cached coalition structure
    for n in range(0, 9):
        ro = outcome(lambda: po.bounds._get_sub_super_coalition_structure(n))
        rn = outcome(lambda: pn.bounds._get_sub_super_coalition_structure(n))
        ok = ro[0] == rn[0] and (_same_result(ro[1], rn[1]) if ro[0] == "ok" else ro == rn)
        if not ok:
            raise Different(f"[_get_sub_super_coalition_structure n={n}]\n orig={ro!r}\n new ={rn!r}")
        cases += 1
    # game_properties uses sub_coalitions
    for seed in range(40):
        rng = np.random.default_rng([5, seed])
        n = int(rng.integers(1, 6))
        kind = ["int_sa", "float_sa", "tight_sa", "convex", "additive", "random", "special"][seed % 7]
        values = gen_values(kind, n, rng)
        res = []
        for p in (po, pn):
            g = p.game.IncompleteCooperativeGame(n)
            g.set_values(values)
            res.append(tuple(outcome(lambda f=f: getattr(p.game_properties, f)(g))
                             for f in ("is_superadditive", "is_monotone_decreasing", "is_sam")))
        if res[0] != res[1]:
            raise Different(f"[game_properties seed={seed} kind={kind} n={n}] orig={res[0]!r} new={res[1]!r}")
        cases += 1
    return cases


def main() -> int:
    root = tempfile.mkdtemp(prefix="equiv_T01_")
    try:
        return _main(root)
    finally:
        shutil.rmtree(root, ignore_errors=True)


def _main(root: str) -> int:
    _materialise("ic_orig", True, root)
    _materialise("ic_new", False, root)
    sys.path.insert(0, root)
    po, pn = Pkg("ic_orig"), Pkg("ic_new")
    assert list(po.bounds.BOUNDS) == list(pn.bounds.BOUNDS), "registry keys differ"
    # report which sources differ
    changed = [m for m in MODULES if open(os.path.join(root, "ic_orig", m + ".py")).read()
               != open(os.path.join(root, "ic_new", m + ".py")).read()]
    print("changed modules:", changed)

    cases = 0
    try:
        cases += run_id_tests(po, pn)
        print(f"{cases} direct coalition-id / structure / property cases compared")
        kinds = ["int_sa", "float_sa", "tight_sa", "convex", "additive", "random", "special"]
        modes = ["minimal", "extra", "extra", "full", "broken"]
        for seed in range(4):
            for n in (1, 2, 3, 4, 5):
                for kind in kinds:
                    for mode in modes:
                        rng = np.random.default_rng([seed, n, kinds.index(kind), modes.index(mode)])
                        values = gen_values(kind, n, rng)
                        known = gen_known(mode, n, rng)
                        for name in po.bounds.BOUNDS:
                            if name in ("sam_apx_100", "sam_apx_1000") and (n > 3 or seed > 0):
                                continue
                            if name == "sam_apx_10" and n > 4:
                                continue
                            for recording in (False, True):
                                if recording and name not in ("superadditive", "superadditive_cached"):
                                    continue
                                ctx = f"[seed={seed} n={n} kind={kind} mode={mode} computer={name} rec={recording}]"
                                run_scenario(ctx, po, pn, name, n, values, known, seed * 1000 + cases, recording)
                                cases += 1
        # one larger game
        for seed in range(3):
            rng = np.random.default_rng(900 + seed)
            values = gen_values("float_sa", 7, rng)
            known = gen_known("extra", 7, rng)
            for name in ("superadditive", "superadditive_cached"):
                run_scenario(f"[n=7 seed={seed} computer={name}]", po, pn, name, 7, values, known, seed, False)
                cases += 1
    except Different as d:
        print("DIFFERENT")
        print(d)
        return 1
    print(f"{cases} scenarios compared")
    print("EQUIVALENT")
    return 0


if __name__ == "__main__":
    warnings.simplefilter("ignore", RuntimeWarning)  # inf - inf in the 'special' inputs, on both sides
    sys.exit(main())
