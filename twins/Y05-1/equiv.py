"""Differential check for patch 1 (coalitions.py: match statements, functools.reduce).

Runs the ORIGINAL package (git archive HEAD) and the current worktree in separate
interpreters over the same deterministic inputs, pickles the outcomes and compares
the pickles byte for byte.  Exit status 0 iff identical.
"""
import os
import shutil
import subprocess
import sys
import tempfile

WT = "/tmp/wt_y5_Y05"
PY = "/venv/bin/python"

DRIVER = r'''
import sys, pickle, itertools, random
import numpy as np
from incomplete_cooperative import coalitions as cm
from incomplete_cooperative.coalitions import (Coalition, all_coalitions, grand_coalition,
    player_to_coalition, minimal_game_coalitions, exclude_coalition, get_known_coalitions,
    get_sub_coalitions, get_super_coalitions, disjoint_coalitions)
from incomplete_cooperative.supermodularity_check import check_supermodularity
from incomplete_cooperative.game import IncompleteCooperativeGame
from incomplete_cooperative.bounds import compute_bounds_superadditive

out = []


def enc(x):
    """Encode a value exactly (type names included)."""
    if isinstance(x, Coalition):
        return ("C", type(x.id).__name__, enc(x.id))
    if isinstance(x, (np.generic,)):
        return ("np", type(x).__name__, x.item() if x.shape == () else x.tolist())
    if isinstance(x, np.ndarray):
        return ("arr", str(x.dtype), x.shape, x.tobytes())
    if isinstance(x, (list, tuple)):
        return (type(x).__name__, [enc(y) for y in x])
    if isinstance(x, (int, float, bool, str, type(None))):
        return (type(x).__name__, repr(x))
    return ("obj", type(x).__name__)


def run(tag, f, *a):
    try:
        r = f(*a)
        if hasattr(r, "__next__"):
            r = list(r)
        out.append((tag, "ok", enc(r)))
    except BaseException as e:  # noqa
        out.append((tag, "exc", type(e).__name__, str(e)))


class IntSub(int):
    pass


class CoalSub(Coalition):
    pass


class Both(Coalition, int):
    def __new__(cls, v):
        return int.__new__(cls, v)

    def __init__(self, v):
        Coalition.__init__(self, v)

    __hash__ = Coalition.__hash__


ids = list(range(0, 40)) + [63, 64, 127, 255, 1023, 2**20 + 5, 2**40 + 3]
others = ([Coalition(i) for i in (0, 1, 2, 3, 5, 6, 7, 12, 31, 2**20 + 5)]
          + [CoalSub(3), CoalSub(0)]
          + [0, 1, 2, 3, 5, 10, 40, True, False, IntSub(2), IntSub(0)]
          + [np.int32(1), np.int64(3), np.uint8(2), np.bool_(True)]
          + [1.0, 2.5, "a", "1", None, [1], (1,), {1}, b"x", object, 1j, float("nan")])
try:
    others.append(Both(3))
except Exception as e:  # identical on both sides anyway
    out.append(("both-construct", type(e).__name__, str(e)))

import operator
for i in ids:
    c = Coalition(i)
    for j, o in enumerate(others):
        run(("eq", i, j), operator.eq, c, o)
        run(("ne", i, j), operator.ne, c, o)
        run(("req", i, j), operator.eq, o, c)
        run(("sub", i, j), operator.sub, c, o)
        run(("add", i, j), operator.add, c, o)
        run(("dunder_eq", i, j), Coalition.__eq__, c, o)
        run(("dunder_sub", i, j), Coalition.__sub__, c, o)
        run(("dunder_add", i, j), Coalition.__add__, c, o)
    run(("len", i), len, c)
    run(("players", i), lambda c=c: list(c.players))
    run(("hash", i), hash, c)
    for n in (0, 1, 3, 6, 45):
        run(("inv", i, n), c.inverted, n)
    run(("in_set", i), lambda c=c: (c in {Coalition(3), Coalition(i)}, c in [1, 2, Coalition(5)],
                                    {Coalition(3): 1}.get(c)))

# numpy / odd ids on the left-hand side
for lid in (np.int32(5), np.int64(6), np.uint8(7), True, 3.0, "x", None):
    c = Coalition(lid)
    for j, o in enumerate(others):
        run(("odd-eq", repr(lid), j), operator.eq, c, o)
        run(("odd-sub", repr(lid), j), operator.sub, c, o)
        run(("odd-add", repr(lid), j), operator.add, c, o)

# from_players
rng = random.Random(12345)
fp_inputs = [[], (), set(), range(0), range(5), [0], [3], {3}, [1, 1, 1], [0, 2, 2, 5], (4, 1, 4),
             [True, 1, 0, False], [np.int32(1), np.int64(1), 2], [np.int64(40), 3], [np.int8(6), np.int8(7)],
             [np.int8(7)], [np.uint8(7), np.uint8(8)],
             [1.0, 2], [0.5], [0.5, 1.5, 2.5], [0.1, 0.2, 0.3, 0.7, 1.1], [-1], [-1, -2, 3], [-1, 1.5],
             ["a"], [None], [[1]], [{1}], 5, None, "12", b"\x01\x02", [1j], [float("nan")], [float("inf")],
             {1: 2, 3: 4}, frozenset({2, 9}), [2**10], [70, 64, 63], [IntSub(3), 3, 1]]
for _ in range(300):
    k = rng.randrange(0, 12)
    fp_inputs.append([rng.randrange(0, 24) for _ in range(k)])
for _ in range(60):
    k = rng.randrange(1, 7)
    fp_inputs.append([rng.choice([0.25, 0.5, 1.5, 2.75, 3.1, 1, 2, 7, -1, -3, 0.1, 1e3, -1074.0, 1023.9])
                      for _ in range(k)])
for j, inp in enumerate(fp_inputs):
    run(("from_players", j), Coalition.from_players, inp)
    run(("from_players_inst", j), Coalition(0).from_players, inp)
for j in range(40):
    run(("from_players_gen", j), Coalition.from_players, (x * x % 11 for x in range(j)))


def bad_iter():
    yield 1
    yield 4
    raise KeyError("boom")


run(("from_players_baditer",), Coalition.from_players, bad_iter())

# derived helpers
for n in range(0, 7):
    run(("all", n), lambda n=n: list(all_coalitions(n)))
    run(("grand", n), grand_coalition, n)
    run(("minimal", n), lambda n=n: list(minimal_game_coalitions(n)))
    for i in range(2**n):
        c = Coalition(i)
        run(("subs", n, i), lambda c=c: list(get_sub_coalitions(c)))
        run(("supers", n, i), lambda c=c, n=n: list(get_super_coalitions(c, n)))
        run(("excl", n, i), lambda c=c, n=n: list(exclude_coalition(c, all_coalitions(n))))
        for k in range(0, 2**n, 3):
            run(("disj", n, i, k), disjoint_coalitions, c, Coalition(k))
for bad in ("x", None, 2.0):
    run(("minimal-bad", repr(bad)), lambda bad=bad: list(minimal_game_coalitions(bad)))
    run(("grand-bad", repr(bad)), grand_coalition, bad)

# games: supermodularity check and known coalitions over real game objects
for n in (2, 3, 4, 5):
    for seed in range(12):
        g = IncompleteCooperativeGame(n, compute_bounds_superadditive)
        r = np.random.default_rng(seed)
        kind = seed % 4
        sizes = np.array([len(Coalition(i)) for i in range(2**n)], dtype=float)
        if kind == 0:
            vals = sizes ** 2
        elif kind == 1:
            vals = r.random(2**n)
        elif kind == 2:
            vals = sizes ** 2 + r.random(2**n) * 0.3
        else:
            vals = np.sqrt(sizes)
        vals[0] = 0
        g.set_values(vals)
        run(("supermod", n, seed), check_supermodularity, g)
        run(("supermod-tol", n, seed), check_supermodularity, g, 0.5)
        run(("grand-g", n, seed), grand_coalition, g)
        run(("all-g", n, seed), lambda g=g: list(all_coalitions(g)))
        run(("minimal-g", n, seed), lambda g=g: list(minimal_game_coalitions(g)))
        g2 = IncompleteCooperativeGame(n, compute_bounds_superadditive)
        known = [Coalition(i) for i in range(2**n) if r.random() < 0.4]
        g2.set_known_values(vals[[c.id for c in known]], known)
        run(("known", n, seed), lambda g2=g2: list(get_known_coalitions(g2)))

# pickling and public names
for i in (0, 5, 2**33):
    out.append(("pickle", i, pickle.dumps(Coalition(i), protocol=4)))
    out.append(("pickle-rt", i, enc(pickle.loads(pickle.dumps(Coalition(i) - 0 + 1)))))
# names defined by the module itself must be identical; names it merely imports must stay importable
out.append(("names", sorted(n for n in dir(cm) if getattr(getattr(cm, n), "__module__", None) == cm.__name__)))
out.append(("imported-names", [(n, hasattr(cm, n)) for n in
                               ("Game", "IncompleteGame", "Iterable", "Iterator", "Player", "T", "TypeVar",
                                "annotations", "powerset")]))
out.append(("coalition-attrs", sorted(n for n in vars(Coalition))))
out.append(("static", isinstance(vars(Coalition)["from_players"], staticmethod),
            isinstance(vars(Coalition)["players"], property)))

with open(sys.argv[1], "wb") as fh:
    pickle.dump(out, fh, protocol=4)
print(len(out))
'''


def main() -> int:
    tmp = tempfile.mkdtemp(prefix="y05_equiv1_")
    try:
        orig = os.path.join(tmp, "orig")
        os.mkdir(orig)
        subprocess.run(f"git -C {WT} archive HEAD incomplete_cooperative | tar -x -C {orig}",
                       shell=True, check=True)
        drv = os.path.join(tmp, "driver.py")
        with open(drv, "w") as fh:
            fh.write(DRIVER)
        outs = []
        for name, root in (("orig", orig), ("new", WT)):
            res = os.path.join(tmp, name + ".pkl")
            env = dict(os.environ, PYTHONPATH=root, PYTHONHASHSEED="0", OMP_NUM_THREADS="1",
                       PYTHONDONTWRITEBYTECODE="1")
            p = subprocess.run([PY, drv, res], env=env, cwd=tmp, capture_output=True, text=True)
            if p.returncode != 0:
                print(name, "driver failed:\n", p.stderr[-3000:])
                return 2
            print(name, "records:", p.stdout.strip())
            with open(res, "rb") as fh:
                outs.append(fh.read())
        if outs[0] == outs[1]:
            print("IDENTICAL", len(outs[0]), "bytes")
            return 0
        import pickle
        a, b = pickle.loads(outs[0]), pickle.loads(outs[1])
        if a == b:  # only pickle memo layout differs; records are plain ints/strs/bytes (NaN kept as repr)
            print("IDENTICAL records", len(a))
            return 0
        print("DIFFERENT: lengths", len(a), len(b))
        shown = 0
        for x, y in zip(a, b):
            if x != y and shown < 10:
                print(" orig:", x, "\n new: ", y)
                shown += 1
        return 1
    finally:
        shutil.rmtree(tmp, ignore_errors=True)


if __name__ == "__main__":
    sys.exit(main())
