"""Differential equivalence test for refactoring 3 (run with cwd = worktree, refactoring applied)."""

# ======================================== _common.py ========================================

import os
import subprocess
import sys
import tempfile
import traceback
from functools import partial

import numpy as np

WT = os.getcwd()
NEEDED = ["__init__.py", "bounds.py", "coalition_ids.py", "coalitions.py", "functoolz.py", "game.py", "game_properties.py",
          "generators.py", "graph_game.py", "protocols.py"]


def _git_show(path):
    return subprocess.run(["git", "-C", WT, "show", f"HEAD:{path}"], check=True, capture_output=True).stdout.decode()


def load_packages():
    """Return (orig, new): two namespaces with the modules of the original and of the refactored package."""
    tmp = tempfile.mkdtemp(prefix="icg_orig_")
    pkg = os.path.join(tmp, "icg_orig")
    os.makedirs(pkg)
    for name in NEEDED:
        src = _git_show(f"incomplete_cooperative/{name}").replace("incomplete_cooperative", "icg_orig")
        with open(os.path.join(pkg, name), "w") as f:
            f.write(src)
    sys.path.insert(0, tmp)
    sys.path.insert(0, WT)
    import importlib

    class NS:
        pass
    out = []
    for pkgname in ("icg_orig", "incomplete_cooperative"):
        ns = NS()
        for mod in ("bounds", "coalition_ids", "coalitions", "game", "game_properties", "generators"):
            setattr(ns, mod, importlib.import_module(f"{pkgname}.{mod}"))
        ns.name = pkgname
        out.append(ns)
    orig, new = out
    assert orig.bounds.__file__.startswith(tmp), orig.bounds.__file__
    assert new.bounds.__file__.startswith(WT), new.bounds.__file__
    return orig, new


# ---------------------------------------------------------------------------------------------------------------------
# exact comparison of arbitrary results
def same(a, b):
    """Exact structural equality: types, dtypes, shapes, memory layout and bits (NaN == NaN)."""
    if isinstance(a, np.ndarray) or isinstance(b, np.ndarray):
        return (isinstance(a, np.ndarray) and isinstance(b, np.ndarray) and a.dtype == b.dtype and a.shape == b.shape
                and a.flags.c_contiguous == b.flags.c_contiguous
                and np.array_equal(a, b, equal_nan=a.dtype.kind in "fc")
                and (a.dtype.kind not in "f" or np.array_equal(np.signbit(a), np.signbit(b))))
    if type(a) is not type(b):
        return False
    if isinstance(a, (tuple, list)):
        return len(a) == len(b) and all(same(x, y) for x, y in zip(a, b))
    if isinstance(a, dict):
        return a.keys() == b.keys() and list(a) == list(b) and all(same(a[k], b[k]) for k in a)
    if isinstance(a, (float, np.floating)):
        return (a == b and np.signbit(a) == np.signbit(b)) or (a != a and b != b)
    return a == b


def outcome(fn, *args, **kwargs):
    """Run fn; return ('ok', result) or ('exc', type name, str)."""
    try:
        return ("ok", fn(*args, **kwargs))
    except BaseException as e:  # noqa
        if isinstance(e, (KeyboardInterrupt, SystemExit)):
            raise
        return ("exc", type(e).__name__, str(e))


class Tally:
    def __init__(self):
        self.cases = 0

    def check(self, label, a, b):
        self.cases += 1
        if not same(a, b):
            print("DIFFERENT")
            print("first counterexample:", label)
            print("  original  :", a)
            print("  refactored:", b)
            sys.exit(1)


# ---------------------------------------------------------------------------------------------------------------------
# a game class that records every call made on it (name, arguments, result) - one per package
RECORDED = ["is_value_known", "are_values_known", "get_lower_bounds", "get_upper_bounds", "get_values", "get_known_values",
            "get_value", "get_lower_bound", "get_upper_bound", "set_lower_bound", "set_upper_bound", "set_lower_bounds",
            "set_upper_bounds", "set_value", "set_values"]


def _norm(x):
    if hasattr(x, "id") and not isinstance(x, np.ndarray):
        return ("C", int(x.id))
    if isinstance(x, np.ndarray):
        return ("A", str(x.dtype), x.shape, x.tobytes())
    if isinstance(x, (list, tuple)):
        return tuple(_norm(y) for y in x)
    if isinstance(x, (np.generic,)):
        return (type(x).__name__, x.tobytes())
    return (type(x).__name__, repr(x))


class CallLog:
    """Running digest of the calls made on a game (full entries would not fit in memory for 1000 repetitions)."""

    def __init__(self):
        import hashlib
        self.h = hashlib.sha1()
        self.count = 0

    def append(self, entry):
        self.h.update(repr(entry).encode())
        self.count += 1

    def result(self):
        return (self.count, self.h.hexdigest())


def recording_class(ns):
    base = ns.game.IncompleteCooperativeGame

    class Rec(base):
        log = None

    def wrap(name):
        inner = getattr(base, name)

        def method(self, *args, **kwargs):
            if self.log is not None:
                args = tuple(list(a) if (a is not None and not isinstance(a, (np.ndarray, np.generic, int, float))
                                         and hasattr(a, "__iter__")) else a for a in args)
            res = inner(self, *args, **kwargs)
            if self.log is not None:
                self.log.append((name, _norm(args), _norm(tuple(sorted(kwargs.items()))), _norm(res)))
            return res
        return method
    for name in RECORDED:
        setattr(Rec, name, wrap(name))
    return Rec


# ---------------------------------------------------------------------------------------------------------------------
# inputs
def value_tables(n, rng, ns_for_generators=None):
    """Yield (label, values) - full value vectors of an n-player game (values[0] == 0)."""
    size = 2**n
    sizes = np.array([bin(i).count("1") for i in range(size)])
    yield "size", sizes.astype(float)
    yield "size_sq", (sizes**2).astype(float)
    yield "neg_min_k", -np.minimum(sizes, max(1, n // 2)).astype(float)
    for j in range(3):
        v = rng.random(size) * 10
        v[0] = 0
        yield f"uniform{j}", v
    for j in range(2):
        v = rng.integers(-5, 20, size).astype(float)
        v[0] = 0
        yield f"integers{j}", v
    for j in range(2):
        # superadditive with non-representable sums: sum of singleton weights times a convex function of the size
        w = rng.random(n) * 0.1 + 0.1
        v = np.array([sum(w[p] for p in range(n) if i >> p & 1) * (1 + 0.3 * bin(i).count("1")) for i in range(size)])
        yield f"convexish{j}", v
    v = rng.normal(size=size) * 1e-3 + sizes / 3
    v[0] = 0
    yield "thirds", v
    if size > 4:
        v = rng.random(size)
        v[0] = 0
        v[rng.integers(1, size)] = np.nan
        yield "with_nan", v
        v = rng.random(size)
        v[0] = 0
        v[rng.integers(1, size)] = np.inf
        v[rng.integers(1, size)] = -np.inf
        yield "with_inf", v


def knowledge_sets(n, rng, count):
    """Yield (label, sorted list of known coalition ids); most contain the minimal information, a few do not."""
    size = 2**n
    minimal = sorted({0, size - 1, *[2**p for p in range(n)]})
    yield "minimal", minimal
    yield "full", list(range(size))
    for j in range(count):
        p = rng.choice([0.1, 0.3, 0.5, 0.8])
        extra = [i for i in range(size) if rng.random() < p]
        yield f"min+rand{j}", sorted(set(minimal) | set(extra))
    if n >= 2:
        yield "no_grand", [i for i in minimal if i != size - 1]
        yield "no_singleton0", [i for i in minimal if i != 1]
        yield "only_empty_grand", sorted({0, size - 1})
        yield "no_empty", [i for i in minimal if i != 0]
    if n >= 3:
        for j in range(2):
            yield f"eg+rand{j}", sorted({0, size - 1} | {i for i in range(size) if rng.random() < 0.4})


def make_game(ns, cls, n, computer, values, known):
    game = cls(n, computer)
    known = list(known)
    game.set_known_values(values[known], [ns.coalitions.Coalition(int(i)) for i in known])
    if 0 not in known:
        game.unset_value(ns.coalitions.Coalition(0))
    return game


def computers(ns, reps=(0, 1, 2, 3, 10)):
    """All registry entries concerned plus the partial with other repetition counts."""
    out = {k: v for k, v in ns.bounds.BOUNDS.items()}
    for r in reps:
        out[f"apx_partial_{r}"] = partial(ns.bounds.compute_bounds_superadditive_monotone_approx_cached, repetitions=r)
    return out

# ======================================== _bounds_tests.py ========================================
def _is_heavy(name):
    return name in ("sam_apx_100", "sam_apx_1000")


def compare_structure(orig, new, T):
    """The memoised coalition structure itself (values, dtypes, shapes, layout), incl. odd arguments and cache identity."""
    fo, fn = orig.bounds._get_sub_super_coalition_structure, new.bounds._get_sub_super_coalition_structure
    args = [3, 0, 1, 5, 2, 7, 4, 6, 8, np.int64(3), np.int32(4), True, -1, 2.0, "x", None]
    for a in args:
        T.check(f"_get_sub_super_coalition_structure({a!r})", outcome(fo, a), outcome(fn, a))
    for a in [0, 3, 5]:
        T.check(f"memoised identity n={a}", fo(a)[2] is fo(a)[2], fn(a)[2] is fn(a)[2])
        T.check(f"first/second element alias n={a}", np.shares_memory(fo(a)[0], fo(a)[1]),
                np.shares_memory(fn(a)[0], fn(a)[1]))
        T.check(f"writeable flags n={a}", tuple(x.flags.writeable for x in fo(a)), tuple(x.flags.writeable for x in fn(a)))
    T.check("cache_info", tuple(fo.cache_info()), tuple(fn.cache_info()))


def compare_bounds(orig, new, T, seeds=(0, 1, 2), players=(0, 1, 2, 3, 4, 5, 6), record=True):
    """Every registry entry (+ other repetition counts) on many incomplete games: outcome, value table, call sequence."""
    RecO, RecN = recording_class(orig), recording_class(new)
    for seed in seeds:
        for n in players:
            rng = np.random.default_rng([seed, n])
            tables = list(value_tables(n, rng))
            ksets = list(knowledge_sets(n, rng, 4))
            co, cn = computers(orig), computers(new)
            T.check("registry keys", list(orig.bounds.BOUNDS), list(new.bounds.BOUNDS))
            for name in co:
                for ti, (vl, values) in enumerate(tables):
                    for ki, (kl, known) in enumerate(ksets):
                        if _is_heavy(name) and (n > (4 if name == "sam_apx_1000" else 5) or (ti + ki) % 7 != seed):
                            continue
                        if n >= 5 and (ti * 3 + ki + seed) % (4 if n == 5 else 8) != 0:
                            continue
                        label = f"seed={seed} n={n} computer={name} values={vl} known={kl}{known if n <= 3 else ''}"
                        go = make_game(orig, RecO, n, co[name], values, known)
                        gn = make_game(new, RecN, n, cn[name], values, known)
                        if record:
                            go.log, gn.log = CallLog(), CallLog()
                        for attempt in ("first", "second"):  # repeated invocation on one game object
                            ro, rn = outcome(go.compute_bounds), outcome(gn.compute_bounds)
                            T.check(label + f" [{attempt} call: outcome]", ro, rn)
                            T.check(label + f" [{attempt} call: value table]", go._values, gn._values)
                            if record:
                                T.check(label + f" [{attempt} call: calls made on the game]", go.log.result(), gn.log.result())
                        unknown = [i for i in range(2**n) if i not in known]
                        if unknown:  # reveal one more value, recompute
                            pick = unknown[int(rng.integers(len(unknown)))]
                            go.set_value(values[pick], orig.coalitions.Coalition(pick))
                            gn.set_value(values[pick], new.coalitions.Coalition(pick))
                            ro, rn = outcome(go.compute_bounds), outcome(gn.compute_bounds)
                            T.check(label + f" [after revealing {pick}: outcome]", ro, rn)
                            T.check(label + f" [after revealing {pick}: value table]", go._values, gn._values)


def compare_interleaved(orig, new, T, seed=7, steps=150):
    """Cached computers with player counts interleaved in one process, starting from empty memo tables."""
    orig.bounds._get_sub_super_coalition_structure.cache_clear()
    new.bounds._get_sub_super_coalition_structure.cache_clear()
    rng = np.random.default_rng(seed)
    for step in range(steps):
        n = int(rng.integers(1, 7))
        name = ["superadditive_cached", "sam_apx_1", "sam_apx_10", "superadditive"][int(rng.integers(4))]
        values = rng.random(2**n) * (1 + np.array([bin(i).count("1") for i in range(2**n)]))
        values[0] = 0
        _, known = list(knowledge_sets(n, rng, 1))[2]
        go = make_game(orig, orig.game.IncompleteCooperativeGame, n, orig.bounds.BOUNDS[name], values, known)
        gn = make_game(new, new.game.IncompleteCooperativeGame, n, new.bounds.BOUNDS[name], values, known)
        T.check(f"interleaved step {step} n={n} {name}: outcome", outcome(go.compute_bounds), outcome(gn.compute_bounds))
        T.check(f"interleaved step {step} n={n} {name}: value table", go._values, gn._values)
    T.check("cache_info after interleaving", tuple(orig.bounds._get_sub_super_coalition_structure.cache_info()),
            tuple(new.bounds._get_sub_super_coalition_structure.cache_info()))


def compare_generated_games(orig, new, T, seeds=(0, 1, 2, 3)):
    """Games drawn from the package generators (same seed on both sides), SAM ones for the sam_apx entries."""
    gens = ["factory", "noisy_factory", "factory_cheerleader", "xos", "xs", "oxs", "k_budget_generator", "covg_fn_generator",
            "graph_cycle", "graph_random"]
    for seed in seeds:
        for n in (3, 4, 5):
            for g in gens:
                vo = outcome(lambda: np.array(orig.generators.GENERATORS[g](n, np.random.default_rng([seed, n])).get_values()))
                vn = outcome(lambda: np.array(new.generators.GENERATORS[g](n, np.random.default_rng([seed, n])).get_values()))
                T.check(f"generator {g} n={n} seed={seed}", vo, vn)
                if vo[0] != "ok":
                    continue
                values = vo[1]
                rng = np.random.default_rng([seed, n, 99])
                for kl, known in list(knowledge_sets(n, rng, 2))[:4]:
                    for name in ("superadditive", "superadditive_cached", "sam_apx_1", "sam_apx_10"):
                        go = make_game(orig, orig.game.IncompleteCooperativeGame, n, orig.bounds.BOUNDS[name], values, known)
                        gn = make_game(new, new.game.IncompleteCooperativeGame, n, new.bounds.BOUNDS[name], values, known)
                        label = f"generator {g} n={n} seed={seed} known={kl} computer={name}"
                        T.check(label + " outcome", outcome(go.compute_bounds), outcome(gn.compute_bounds))
                        T.check(label + " value table", go._values, gn._values)

# ======================================== _ids_props_tests.py ========================================
def compare_coalition_ids(orig, new, T):
    """Every function of coalition_ids on every (coalition, number_of_players), several integer types, invalid arguments."""
    o, n_ = orig.coalition_ids, new.coalition_ids
    for n in range(0, 8):
        for c in list(range(2**n)) + [2**n, 2**n + 3]:
            for typ in (int, np.int32, np.int64):
                cc = typ(c)
                for fname in ("players", "get_size", "sub_coalitions", "super_coalitions"):
                    T.check(f"coalition_ids.{fname}({typ.__name__}({c}), {n})", outcome(getattr(o, fname), cc, n),
                            outcome(getattr(n_, fname), cc, n))
    for a in [(3, np.int64(2)), (np.int32(5), np.int32(3)), (0, -1), (1, 2.0), (-1, 3), (1.0, 2), (3, None), ("a", 2)]:
        for fname in ("players", "get_size", "sub_coalitions", "super_coalitions"):
            T.check(f"coalition_ids.{fname}{a!r}", outcome(getattr(o, fname), *a), outcome(getattr(n_, fname), *a))
    for a in [0, 3, np.int64(4), np.int32(2), -1, 1.5]:
        T.check(f"coalition_ids.get_all_coalitions({a!r})", outcome(o.get_all_coalitions, a), outcome(n_.get_all_coalitions, a))


def _property_games(n, rng):
    size = 2**n
    sizes = np.array([bin(i).count("1") for i in range(size)])
    yield "additive", sizes.astype(float)
    yield "size_sq", (sizes**2).astype(float)
    yield "neg_size", -sizes.astype(float)
    yield "neg_min_k", -np.minimum(sizes, max(1, n // 2)).astype(float)
    yield "zeros", np.zeros(size)
    w = rng.random(n)
    additive = np.array([sum(w[p] for p in range(n) if i >> p & 1) for i in range(size)])
    yield "additive_float", additive                      # equalities that hold only up to rounding
    yield "additive_float_neg", -additive
    for eps in (1e-12, 1e-10, 1e-9, 1e-8, 1e-6):          # just inside / outside the relative tolerance
        v = additive.copy()
        if size > 3:
            v[size - 1] *= (1 - eps)
        yield f"additive_float_shrunk_{eps}", v
    for j in range(4):
        v = rng.random(size) * (1 + sizes)**(j / 2)
        v[0] = 0
        yield f"random_scaled{j}", v
    for j in range(3):
        v = -np.sort(rng.random(size))[np.argsort(np.argsort(sizes, kind="stable"), kind="stable")]
        v[0] = 0
        yield f"decreasing_in_size{j}", v
    v = rng.integers(-3, 4, size).astype(float)
    v[0] = 0
    yield "small_integers", v
    if size > 2:
        v = additive.copy()
        v[int(rng.integers(1, size))] = np.nan
        yield "nan", v
        v = additive.copy()
        v[size - 1] = np.inf
        yield "inf_grand", v
        v = -additive.copy()
        v[int(rng.integers(1, size))] = -np.inf
        yield "neg_inf", v


def compare_game_properties(orig, new, T, seeds=(0, 1, 2, 3, 4)):
    """is_superadditive (several tolerances) / is_monotone_decreasing / is_sam: same value AND same result type."""
    for seed in seeds:
        for n in range(0, 7):
            rng = np.random.default_rng([seed, n, 5])
            for label, values in _property_games(n, rng):
                go, gn = orig.game.IncompleteCooperativeGame(n), new.game.IncompleteCooperativeGame(n)
                go.set_values(values)
                gn.set_values(values)
                lab = f"seed={seed} n={n} game={label}"
                for kw in ({}, {"rtol": 0}, {"rtol": 1e-7}, {"rtol": 0, "atol": 1e-9}, {"atol": 1.0}):
                    T.check(f"is_superadditive({lab}, {kw})", outcome(orig.game_properties.is_superadditive, go, **kw),
                            outcome(new.game_properties.is_superadditive, gn, **kw))
                T.check(f"is_monotone_decreasing({lab})", outcome(orig.game_properties.is_monotone_decreasing, go),
                        outcome(new.game_properties.is_monotone_decreasing, gn))
                T.check(f"is_sam({lab})", outcome(orig.game_properties.is_sam, go), outcome(new.game_properties.is_sam, gn))
                T.check(f"game untouched ({lab})", go._values, gn._values)
            # an incomplete game: get_values raises
            go, gn = orig.game.IncompleteCooperativeGame(n), new.game.IncompleteCooperativeGame(n)
            for f in ("is_superadditive", "is_monotone_decreasing", "is_sam"):
                T.check(f"{f}(incomplete game n={n})", outcome(getattr(orig.game_properties, f), go),
                        outcome(getattr(new.game_properties, f), gn))
    # graph games from the generators (another Game implementation)
    for seed in seeds:
        for n in (3, 4, 5):
            go = orig.generators.GENERATORS["graph_cycle"](n, np.random.default_rng(seed))
            gn = new.generators.GENERATORS["graph_cycle"](n, np.random.default_rng(seed))
            for f in ("is_superadditive", "is_monotone_decreasing", "is_sam"):
                T.check(f"{f}(graph_cycle n={n} seed={seed})", outcome(getattr(orig.game_properties, f), go),
                        outcome(getattr(new.game_properties, f), gn))

# ======================================== main_3.py ========================================
def main():
    """Refactoring 3: membership-mask helper / named intermediates in coalition_ids.py, loop -> all() in game_properties.py."""
    orig, new = load_packages()
    T = Tally()
    compare_coalition_ids(orig, new, T)
    compare_game_properties(orig, new, T)
    compare_structure(orig, new, T)          # built from coalition_ids.sub_coalitions / super_coalitions / get_size
    compare_generated_games(orig, new, T)    # the SAM generators assert is_sam / is_superadditive on what they generate
    compare_bounds(orig, new, T, seeds=(0,), players=(0, 1, 2, 3, 4, 5), record=False)
    compare_interleaved(orig, new, T)
    print(f"EQUIVALENT ({T.cases} comparisons)")


if __name__ == "__main__":
    main()
