"""Differential test for refactoring 2 (game.py: operator.attrgetter instead of lambdas, set_values rows merged via slice(None)).

Run with cwd=/tmp/wt10/U01.  Loads the ORIGINAL package from `git show HEAD:` into a temporary directory and the refactored
one from the worktree, drives both with identical operation sequences and compares the whole value table exactly.
"""
import atexit
import importlib
import io
import os
import shutil
import subprocess
import sys
import tarfile
import tempfile
import traceback

import numpy as np

WT = os.getcwd()
PKG = "incomplete_cooperative"
MODULES = ["bounds", "game", "coalitions", "coalition_ids", "functoolz", "norms", "exploitability", "protocols"]


def _purge():
    for name in [m for m in sys.modules if m == PKG or m.startswith(PKG + ".")]:
        del sys.modules[name]


def load_pkg(root):
    """Import the package that lives in `root` and return a namespace of its modules."""
    _purge()
    sys.path.insert(0, root)
    try:
        ns = {m: importlib.import_module(f"{PKG}.{m}") for m in MODULES}
        for mod in ns.values():
            assert os.path.realpath(mod.__file__).startswith(os.path.realpath(root)), mod.__file__
    finally:
        sys.path.remove(root)
        _purge()
    return ns


def original_tree():
    tmp = tempfile.mkdtemp(prefix="U01_orig_pkg_")
    atexit.register(shutil.rmtree, tmp, ignore_errors=True)
    data = subprocess.run(["git", "-C", WT, "archive", "HEAD", PKG], check=True, capture_output=True).stdout
    with tarfile.open(fileobj=io.BytesIO(data)) as tar:
        tar.extractall(tmp)
    return tmp


def superadditive_table(rng, n, integer):
    """A random superadditive game as a value vector indexed by coalition id."""
    size = 2 ** n
    v = np.zeros(size)
    order = sorted(range(1, size), key=lambda c: bin(c).count("1"))
    for c in order:
        best = 0.0
        sub = (c - 1) & c
        while sub:
            best = max(best, v[sub] + v[c ^ sub])
            sub = (sub - 1) & c
        inc = float(rng.integers(0, 6)) if integer else float(rng.random() * 3)
        v[c] = best + inc
    return v


def arbitrary_table(rng, n, integer):
    size = 2 ** n
    v = rng.integers(-5, 20, size).astype(float) if integer else rng.normal(size=size) * 7
    v[0] = 0
    return v


def outcome(fn):
    try:
        return ("ok", fn())
    except BaseException as e:  # noqa
        return ("exc", type(e).__name__, str(e))


def same(a, b):
    if a[0] != b[0]:
        return False
    if a[0] == "exc":
        return a == b
    x, y = a[1], b[1]
    if x is None or y is None:
        return x is None and y is None
    x, y = np.asarray(x), np.asarray(y)
    return x.dtype == y.dtype and x.shape == y.shape and np.array_equal(x, y, equal_nan=True)



class Driver:
    """Holds one incomplete game of one package version and applies operations to it."""

    def __init__(self, ns, n, bounds_name):
        self.ns = ns
        self.C = ns["coalitions"].Coalition
        self.n = n
        computer = ns["bounds"].BOUNDS[bounds_name] if bounds_name else None
        G = ns["game"].IncompleteCooperativeGame
        self.game = G(n, computer) if computer else G(n)

    def coals(self, ids, form):
        C = self.C
        if ids is None:
            return None
        if form == "list":
            return [C(int(i)) for i in ids]
        if form == "gen":
            return (C(int(i)) for i in ids)
        if form == "tuple":
            return tuple(C(int(i)) for i in ids)
        if form == "npint":
            return [C(np.int32(i)) for i in ids]
        if form == "objarr":
            arr = np.empty(len(ids), dtype=object)
            for k, i in enumerate(ids):
                arr[k] = C(int(i))
            return arr
        if form == "bad":  # things without an `id` attribute: the AttributeError must be identical
            return [int(i) for i in ids]
        raise AssertionError(form)

    def apply(self, op):
        g = self.game
        kind = op[0]
        st = lambda: g._values.copy()  # noqa
        if kind == "set_values":
            _, vals, ids, form = op
            return outcome(lambda: (g.set_values(vals, self.coals(ids, form)), st())[1])
        if kind == "set_known_values":
            _, vals, ids, form = op
            return outcome(lambda: (g.set_known_values(vals, self.coals(ids, form)), st())[1])
        if kind in ("get_values", "get_upper_bounds", "get_lower_bounds", "get_intervals", "are_values_known",
                    "get_known_values"):
            _, ids, form = op
            return outcome(lambda: np.array(getattr(g, kind)(self.coals(ids, form))))
        if kind in ("set_upper_bounds", "set_lower_bounds"):
            _, vals, ids, form = op
            return outcome(lambda: (getattr(g, kind)(vals, self.coals(ids, form)), st())[1])
        if kind == "coalition_map":
            _, ids, form, count = op
            return outcome(lambda: g._get_coalition_map(self.coals(ids, form), count))
        if kind == "filter_out":
            _, which, ids, form = op
            return outcome(lambda: np.array(g._filter_out_coalitions(g._values[:, which], self.coals(ids, form))))
        if kind == "reveal":
            _, i, val = op
            return outcome(lambda: (g.reveal_value(val, self.C(int(i))), st())[1])
        if kind == "unreveal":
            _, i = op
            return outcome(lambda: (g.unreveal_value(self.C(int(i))), st())[1])
        if kind == "set_value":
            _, i, val = op
            return outcome(lambda: (g.set_value(val, self.C(int(i))), st())[1])
        if kind == "compute":
            return outcome(lambda: (g.compute_bounds(), st())[1])
        if kind == "neg":
            return outcome(lambda: (-g)._values.copy())
        if kind == "add":
            return outcome(lambda: (g + g.copy())._values.copy())
        if kind == "gaps":
            ns = self.ns
            return outcome(lambda: np.array([ns["norms"].l1_norm(g), ns["norms"].l2_norm(g), ns["norms"].linf_norm(g),
                                             ns["exploitability"].compute_exploitability(g)]))
        raise AssertionError(kind)


FORMS = ["list", "gen", "tuple", "npint", "objarr"]


def random_ids(rng, size, allow_dups=True):
    k = int(rng.integers(0, size + 1))
    if allow_dups and rng.random() < 0.2:
        return rng.integers(0, size, k).tolist()
    return rng.choice(size, k, replace=False).tolist()


def make_ops(rng, n, table):
    size = 2 ** n
    minimal = [0, size - 1] + [2 ** i for i in range(n)]
    ops = []
    # start from a valid state most of the time
    if rng.random() < 0.8:
        ids = sorted(set(minimal) | set(random_ids(rng, size, False)))
        ops.append(("set_known_values", [table[i] for i in ids], ids, str(rng.choice(FORMS))))
        ops.append(("compute",))
    for _ in range(int(rng.integers(8, 16))):
        r = rng.random()
        form = str(rng.choice(FORMS)) if rng.random() < 0.93 else "bad"
        ids = random_ids(rng, size) if rng.random() < 0.8 else None
        if ids is None:
            form = "list"
        m = size if ids is None else len(ids)
        if rng.random() < 0.1:
            m = max(0, m + int(rng.integers(-2, 3)))  # wrong length: identical errors expected
        vals = np.array([table[i] for i in ids]) if (ids is not None and m == len(ids) and rng.random() < 0.7) \
            else rng.integers(-3, 9, m).astype(float) if rng.random() < 0.5 else rng.normal(size=m)
        if rng.random() < 0.3:
            vals = vals.tolist()
        if r < 0.14:
            if isinstance(vals, list) and ids is None and rng.random() < 0.5:
                vals = float(rng.integers(0, 5))  # scalar broadcast into every row
            ops.append(("set_values", vals, ids, form))
        elif r < 0.24:
            kv = vals if rng.random() < 0.5 or not isinstance(vals, list) else iter(vals)
            if not isinstance(kv, (list, np.ndarray)):
                kv = list(vals)  # iterators cannot be replayed on two games
            ops.append(("set_known_values", kv, ids, form))
        elif r < 0.5:
            kind = str(rng.choice(["get_values", "get_upper_bounds", "get_lower_bounds", "get_intervals",
                                   "are_values_known", "get_known_values"]))
            ops.append((kind, ids, form))
        elif r < 0.62:
            kind = str(rng.choice(["set_upper_bounds", "set_lower_bounds"]))
            ops.append((kind, vals, ids, form))
        elif r < 0.67:
            count = -1 if ids is None or rng.random() < 0.5 else len(ids) + int(rng.integers(-1, 2))
            ops.append(("coalition_map", ids, form, count))
        elif r < 0.72:
            ops.append(("filter_out", int(rng.integers(0, 3)), ids, form))
        elif r < 0.80:
            c = int(rng.integers(0, size))
            ops.append(("reveal", c, table[c]))
        elif r < 0.86:
            ops.append(("unreveal", int(rng.integers(0, size))))
        elif r < 0.90:
            c = int(rng.integers(0, size))
            ops.append(("set_value", c, table[c]))
        elif r < 0.95:
            ops.append(("compute",))
        elif r < 0.97:
            ops.append(("neg",))
        elif r < 0.985:
            ops.append(("add",))
        else:
            ops.append(("gaps",))
    ops.append(("compute",))
    ops.append(("gaps",))
    return ops


def gym_trace(ns, n, seed, bounds_name, gap_name):
    """Drive the gym environment (reset / step / unstep) and record everything it returns."""
    import importlib
    C = ns["coalitions"].Coalition
    G = ns["game"].IncompleteCooperativeGame
    rng = np.random.default_rng([seed, n, 99])
    tables = [superadditive_table(rng, n, k % 2 == 0) for k in range(3)]
    counter = [0]

    def generator():
        g = G(n)
        g.set_values(tables[counter[0] % len(tables)])
        counter[0] += 1
        return g
    gaps = {"l1": ns["norms"].l1_norm, "l2": ns["norms"].l2_norm, "linf": ns["norms"].linf_norm,
            "expl": ns["exploitability"].compute_exploitability}
    minimal = list(ns["coalitions"].minimal_game_coalitions(n))
    env = ns["icg_gym"].ICG_Gym(G(n, ns["bounds"].BOUNDS[bounds_name]), generator, minimal, gaps[gap_name])
    out = []
    for episode in range(2):
        state, _ = env.reset()
        out.append(np.array(state))
        taken = []
        for _ in range(len(env.explorable_coalitions)):
            mask = env.action_masks()
            out.append(mask.copy())
            if not mask.any():
                break
            if taken and rng.random() < 0.25:
                a = taken.pop(int(rng.integers(0, len(taken))))
                res = env.unstep(a)
            else:
                a = int(rng.choice(np.flatnonzero(mask)))
                taken.append(a)
                res = env.step(a)
            out.append(np.array(res[0]))
            out.append(np.array([res[1], float(res[2]), float(res[3]), res[4]["chosen_coalition"]]))
            out.append(env.incomplete_game._values.copy())
    return out


def main():
    global MODULES
    MODULES.extend(["icg_gym", "normalize"])
    orig = load_pkg(original_tree())
    new = load_pkg(WT)
    assert orig["game"].__file__ != new["game"].__file__
    names = [None, "superadditive", "superadditive_cached", "sam_apx_1", "sam_apx_10"]
    cases = comparisons = exceptions = 0
    for name in names:
        for n, seeds in [(1, 5), (2, 15), (3, 40), (4, 40), (5, 15)]:
            for seed in range(seeds):
                rng = np.random.default_rng([seed, n, 23])
                table = superadditive_table(rng, n, seed % 2 == 0) if seed % 5 else arbitrary_table(rng, n, seed % 2 == 0)
                ops = make_ops(rng, n, table)
                a, b = Driver(orig, n, name), Driver(new, n, name)
                cases += 1
                for step, op in enumerate(ops):
                    ra, rb = a.apply(op), b.apply(op)
                    comparisons += 1
                    exceptions += ra[0] == "exc"
                    ok = same(ra, rb)
                    sa, sb = ("ok", a.game._values.copy()), ("ok", b.game._values.copy())
                    if not (ok and same(sa, sb)):
                        print("DIFFERENT")
                        print("bounds:", name, "n:", n, "seed:", seed, "step:", step, "op:", op)
                        print("original  :", ra, sa)
                        print("refactored:", rb, sb)
                        return 1
    for bounds_name in ["superadditive", "superadditive_cached", "sam_apx_1"]:
        for gap_name in ["l1", "l2", "linf", "expl"]:
            for n, seeds in [(3, 6), (4, 6), (5, 2)]:
                for seed in range(seeds):
                    ta = outcome(lambda: gym_trace(orig, n, seed, bounds_name, gap_name))
                    tb = outcome(lambda: gym_trace(new, n, seed, bounds_name, gap_name))
                    cases += 1
                    if ta[0] != tb[0] or (ta[0] == "exc" and ta != tb) or len(ta[1]) != len(tb[1]):
                        print("DIFFERENT\ngym", bounds_name, gap_name, n, seed, ta if ta[0] == "exc" else "", tb if tb[0] == "exc" else "")
                        return 1
                    for k, (x, y) in enumerate(zip(ta[1], tb[1])):
                        comparisons += 1
                        if not same(("ok", x), ("ok", y)):
                            print("DIFFERENT\ngym", bounds_name, gap_name, "n:", n, "seed:", seed, "record:", k, x, y)
                            return 1
    print(f"EQUIVALENT ({cases} cases, {comparisons} exact comparisons, of which {exceptions} compared identical exceptions)")
    return 0


if __name__ == "__main__":
    try:
        sys.exit(main())
    except SystemExit:
        raise
    except BaseException:  # noqa
        traceback.print_exc()
        print("DIFFERENT (harness error)")
        sys.exit(1)
