#!/venv/bin/python
"""Differential equivalence check for patch_3.diff (incomplete_cooperative/generators.py, incomplete_cooperative/graph_game.py).

ORIGINAL = `git archive HEAD incomplete_cooperative` of the worktree, unpacked into a temporary directory.
REFACTORED = the worktree as it is (patch applied).  If the worktree has no local change in the package and
`patch_3.diff` lies next to this script, the refactored tree is built in the temporary directory instead
(HEAD export + `git apply`), so the script can also be run on a clean checkout.

Both trees run the same driver in separate interpreters; the canonicalised outcomes are compared exactly.
Exit status 0 iff everything is identical.
"""
import os
import pickle
import subprocess
import sys
import tempfile
from pathlib import Path

K = 3
WT = Path(os.environ.get("TWIN_WORKTREE", "/tmp/wt_x4_X10"))
PY = "/venv/bin/python"
HERE = Path(__file__).resolve().parent

DRIVER = r'''
import itertools, os, pickle, sys
from functools import partial

import numpy as np

out_file = sys.argv[1]
os.chdir(sys.argv[2])

import incomplete_cooperative.generators as gens
from incomplete_cooperative.coalitions import Coalition, all_coalitions
from incomplete_cooperative.game import IncompleteCooperativeGame
from incomplete_cooperative.game_properties import is_monotone_decreasing, is_sam, is_superadditive
from incomplete_cooperative.generators import (GENERATORS, _apply_or, covg_fn_generator, k_budget_generator, oxs,
                                               xos, xs)
from incomplete_cooperative.graph_game import GraphCooperativeGame

RESULTS = []


def canon(x):
    if isinstance(x, Coalition):
        return ("Coalition", canon(x.id))
    if isinstance(x, np.ndarray):
        return ("nd", str(x.dtype), x.shape, x.tobytes())
    if isinstance(x, np.generic):
        return ("np", type(x).__name__, str(x.dtype), x.tobytes())
    if isinstance(x, float):
        return ("f", x.hex())
    if isinstance(x, (bool, int, str, bytes, type(None))):
        return (type(x).__name__, x)
    if isinstance(x, (list, tuple)):
        return (type(x).__name__, [canon(y) for y in x])
    if isinstance(x, dict):
        return ("dict", [(canon(k), canon(v)) for k, v in x.items()])
    if isinstance(x, BaseException):
        return ("exc", type(x).__module__ + "." + type(x).__qualname__, str(x))
    if isinstance(x, IncompleteCooperativeGame):
        return ("ICG", x.number_of_players, canon(x._values), sorted(vars(x)))
    if isinstance(x, GraphCooperativeGame):
        return ("GG", x.number_of_players, canon(x._graph_matrix), sorted(vars(x)))
    return ("repr", type(x).__name__, repr(x))


def record(label, fn, *args, **kwargs):
    try:
        res = ("ok", canon(fn(*args, **kwargs)))
    except BaseException as e:  # noqa
        res = canon(e)
    RESULTS.append((label, res))


def reseed_module_rng(seed):
    gens._gen.bit_generator.state = np.random.PCG64(seed).state
    gens._LAST_OWNER = seed % 3


class CountingRng:
    """Forwards to a numpy Generator and logs the order of the draws."""

    def __init__(self, seed):
        self._g = np.random.default_rng(seed)
        self.log = []

    def __getattr__(self, name):
        attr = getattr(self._g, name)
        if callable(attr):
            def wrapper(*a, **k):
                self.log.append((name, repr(a), repr(sorted(k.items()))))
                return attr(*a, **k)
            return wrapper
        return attr


# ---------------------------------------------------------------------------------------------------------------
# A. _apply_or on arbitrary value vectors (signed zeros, infinities, nans, integer dtype, wrong lengths)
# ---------------------------------------------------------------------------------------------------------------
case = 0
for n in range(0, 6):
    size = 2**n
    for seed in range(12):
        rng = np.random.default_rng(1000 * n + seed)
        v1 = -rng.random(size)
        v2 = -rng.random(size)
        if seed % 4 == 1:
            v1[rng.integers(size)] = -0.0
            v2[rng.integers(size)] = 0.0
            v1[0] = 0.0
            v2[0] = -0.0
        if seed % 4 == 2:
            v1[rng.integers(size)] = np.nan
            v2[rng.integers(size)] = -np.inf
            v1[rng.integers(size)] = np.inf
        if seed % 4 == 3:
            v1 = np.round(v1 * 4)  # many ties
            v2 = np.round(v2 * 4)
        if seed == 8:
            v1 = (v1 * 10).astype(np.int64)
            v2 = (v2 * 10).astype(np.int32)
        if seed == 9:
            v1 = v1.astype(np.float32)
        if seed == 10:
            v1 = list(v1)
            v2 = tuple(v2)
        if seed == 11:
            v1 = rng.random(size)  # positive: the zero initialisation wins
        case += 1
        record(f"A.{n}.{seed}", _apply_or, v1, v2, n)
record("A.short", _apply_or, np.zeros(3), np.zeros(8), 3)
record("A.short2", _apply_or, np.zeros(8), np.zeros(5), 3)
record("A.float_n", _apply_or, np.zeros(8), np.zeros(8), 3.0)
record("A.str_n", _apply_or, np.zeros(8), np.zeros(8), "3")
record("A.npint_n", _apply_or, -np.arange(8.0), -np.arange(8.0), np.int64(3))
record("A.obj", _apply_or, np.array([0, "a"], dtype=object), np.zeros(2), 1)

# ---------------------------------------------------------------------------------------------------------------
# B. oxs / xs / covg / k_budget / xos, all parameters, order of draws, state of the generator afterwards
# ---------------------------------------------------------------------------------------------------------------
for n in range(1, 7):
    for seed in range(6):
        for number_of_xs in (0, 1, 2, 3, 6):
            for normalize in (True, False, 0, 2):
                if n >= 5 and (seed > 1 or number_of_xs == 6 and normalize is not True):
                    continue
                rng = CountingRng(seed)
                record(f"B.oxs.{n}.{seed}.{number_of_xs}.{normalize}", oxs, n, rng, number_of_xs, normalize)
                RESULTS.append((f"B.oxs.{n}.{seed}.{number_of_xs}.{normalize}.draws",
                                (canon(rng.log), repr(rng._g.bit_generator.state))))
        for mult in (0, 1, 2, 3):
            for normalize in (True, False):
                if n * mult > 12:
                    continue
                rng = CountingRng(seed)
                record(f"B.covg.{n}.{seed}.{mult}.{normalize}", covg_fn_generator, n, rng, mult, normalize)
                RESULTS.append((f"B.covg.{n}.{seed}.{mult}.{normalize}.draws",
                                (canon(rng.log), repr(rng._g.bit_generator.state))))
        for nud in (0, 1, 2, 6):
            rng = CountingRng(seed)
            record(f"B.xs.{n}.{seed}.{nud}", xs, n, rng, nud)
            RESULTS.append((f"B.xs.{n}.{seed}.{nud}.draws", (canon(rng.log), repr(rng._g.bit_generator.state))))
        rng = CountingRng(seed)
        record(f"B.kb.{n}.{seed}", k_budget_generator, n, rng)
        for na in (0, 1, 3):
            for norm_add in (False, True):
                rng = np.random.default_rng(seed)  # `additive` calls an unbound Generator method: a real one is needed
                record(f"B.xos.{n}.{seed}.{na}.{norm_add}", xos, n, rng, na, normalize_additive=norm_add)
                RESULTS.append((f"B.xos.{n}.{seed}.{na}.{norm_add}.state", repr(rng.bit_generator.state)))
record("B.oxs.n0", oxs, 0, np.random.default_rng(0))
record("B.covg.n0", covg_fn_generator, 0, np.random.default_rng(0))
record("B.oxs.str", oxs, "3", np.random.default_rng(0))
record("B.covg.float", covg_fn_generator, 3.0, np.random.default_rng(0))
record("B.oxs.kw", oxs, 3, generator=np.random.default_rng(5), number_of_xs=2, normalize=False)
record("B.oxs.default_rng_exists", lambda: type(oxs.__defaults__[0]).__name__)
record("B.defaults", lambda: [(f.__name__, len(f.__defaults__ or ()), sorted((f.__kwdefaults__ or {})))
                              for f in (oxs, covg_fn_generator, _apply_or, xs)])

# ---------------------------------------------------------------------------------------------------------------
# C. the whole registry: n = 3..6 (a few at 7), seeds, both random streams afterwards, class properties
# ---------------------------------------------------------------------------------------------------------------
record("C.keys", lambda: list(GENERATORS))
record("C.pickle_registry_names", lambda: [k for k, v in GENERATORS.items() if pickle.dumps(v) is not None
                                           and not k.startswith("graph_")])
for name in GENERATORS:
    if name == "convex":
        continue
    for n in (3, 4, 5, 6, 7):
        for seed in (0, 1, 2):
            if n == 7 and (seed or name.startswith("graph_beta") or name.startswith("graph_poiss")):
                continue
            if n == 6 and seed == 2:
                continue
            reseed_module_rng(500 + seed)
            rng = np.random.default_rng(seed)

            def run():
                game = GENERATORS[name](n, rng)
                values = game.get_values()
                return (game, values, is_superadditive(game), is_monotone_decreasing(game), is_sam(game))
            record(f"C.{name}.{n}.{seed}", run)
            RESULTS.append((f"C.{name}.{n}.{seed}.rng", repr(rng.bit_generator.state)))
            RESULTS.append((f"C.{name}.{n}.{seed}.modrng", repr(gens._gen.bit_generator.state)))
            RESULTS.append((f"C.{name}.{n}.{seed}.owner", gens._LAST_OWNER))

# ---------------------------------------------------------------------------------------------------------------
# D. graph games: value of every coalition, one by one and all at once, odd matrices
# ---------------------------------------------------------------------------------------------------------------
def matrices():
    for n in range(0, 8):
        for seed in range(5):
            rng = np.random.default_rng(77 * n + seed)
            m = rng.random((n, n)) * 10.0 ** int(rng.integers(-3, 4))
            if seed == 1:
                m = rng.integers(-5, 6, size=(n, n))
            if seed == 2 and n > 1:
                m[0, 1] = np.nan
                m[0, n - 1] = np.inf
            if seed == 3:
                m = -m.astype(np.float32)
            if seed == 4 and n > 2:
                m[0, 1], m[0, 2], m[1, 2] = 1e16, 1.0, -1e16  # association order matters here
            yield f"{n}.{seed}", m


for label, m in matrices():
    record(f"D.ctor.{label}", GraphCooperativeGame, m)
    game = GraphCooperativeGame(m)
    n = game.number_of_players
    record(f"D.values.{label}", game.get_values)
    record(f"D.values_some.{label}", game.get_values, [Coalition(i) for i in range(0, 2**n, 3)])
    record(f"D.values_empty.{label}", game.get_values, [])
    for c in all_coalitions(n):
        record(f"D.value.{label}.{c.id}", game.get_value, c)
    record(f"D.value_big.{label}", game.get_value, Coalition(2**(n + 1) + 1))
    record(f"D.value_big2.{label}", game.get_value, Coalition(2**(n + 1) + 3))
    record(f"D.neg.{label}", lambda: -game)
    record(f"D.copy_eq.{label}", lambda: game.copy() == game)
    record(f"D.add.{label}", lambda: game + game)
    record(f"D.pickle.{label}", pickle.dumps, game, 4)
record("D.value_int", GraphCooperativeGame(np.ones((3, 3))).get_value, 3)
record("D.value_none", GraphCooperativeGame(np.ones((3, 3))).get_value, None)
record("D.values_bad", GraphCooperativeGame(np.ones((3, 3))).get_values, [1, 2])
record("D.nonsquare", lambda: GraphCooperativeGame(np.ones((2, 4))).get_values())
record("D.nonsquare2", lambda: GraphCooperativeGame(np.ones((4, 2))).get_values())
g = GraphCooperativeGame(np.arange(16.0).reshape(4, 4))
v = g.get_value(Coalition(0))
record("D.empty_value_is_fresh", lambda: (type(v).__name__, v))

with open(out_file, "wb") as f:
    pickle.dump(RESULTS, f, protocol=4)
'''


def sh(*cmd, **kw):
    return subprocess.run(cmd, check=True, **kw)


def export_head(dest: Path) -> None:
    dest.mkdir(parents=True)
    archive = subprocess.Popen(["git", "-C", str(WT), "archive", "HEAD", "incomplete_cooperative"],
                               stdout=subprocess.PIPE)
    sh("tar", "-x", "-C", str(dest), stdin=archive.stdout)
    if archive.wait() != 0:
        raise SystemExit("git archive failed")


def main() -> int:
    with tempfile.TemporaryDirectory(prefix=f"equiv{K}_") as tmp_s:
        tmp = Path(tmp_s)
        orig = tmp / "orig"
        export_head(orig)
        dirty = subprocess.run(["git", "-C", str(WT), "diff", "--quiet", "HEAD", "--", "incomplete_cooperative"]
                               ).returncode != 0
        patch = HERE / f"patch_{K}.diff"
        if dirty:
            new = WT
        elif patch.exists():
            new = tmp / "new"
            export_head(new)
            sh("git", "apply", "--directory", str(new.relative_to(tmp)), str(patch), cwd=tmp)
            print(f"worktree clean: refactored tree built from {patch}")
        else:
            raise SystemExit("worktree has no local change and there is no patch to apply")
        (tmp / f"driver_X10_{K}.py").write_text(DRIVER)
        outs = []
        for label, root in (("orig", orig), ("new", new)):
            work = tmp / f"work_{label}"
            work.mkdir()
            env = dict(os.environ, PYTHONPATH=str(root), PYTHONHASHSEED="0", MPLBACKEND="Agg",
                       OMP_NUM_THREADS="1", PYTHONDONTWRITEBYTECODE="1", SOURCE_DATE_EPOCH="0")
            out = tmp / f"{label}.pkl"
            proc = subprocess.run([PY, str(tmp / f"driver_X10_{K}.py"), str(out), str(work)], env=env, cwd=work,
                                  capture_output=True, text=True)
            sys.stderr.write(proc.stderr[-1500:] if os.environ.get("TWIN_VERBOSE") else "")
            if proc.returncode != 0:
                print(proc.stdout[-3000:], proc.stderr[-6000:])
                print(f"driver failed on the {label} tree")
                return 2
            outs.append(out.read_bytes())
        a, b = (pickle.loads(x) for x in outs)
        bad = 0
        if len(a) != len(b):
            print(f"different number of outcomes: {len(a)} vs {len(b)}")
            bad += 1
        for (la, ra), (lb, rb) in zip(a, b):
            if la != lb or ra != rb:
                bad += 1
                if bad <= 10:
                    print(f"MISMATCH {la} / {lb}:\n   orig: {str(ra)[:600]}\n   new:  {str(rb)[:600]}")
        n_exc = sum(1 for _, r in a if isinstance(r, tuple) and r and r[0] == "exc")
        print(f"{len(a)} outcomes compared ({n_exc} of them exceptions), {bad} mismatches; "
              f"pickles byte-equal: {outs[0] == outs[1]}")
        return 0 if bad == 0 and repr(a) == repr(b) else 1


if __name__ == "__main__":
    sys.exit(main())
