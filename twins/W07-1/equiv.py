"""Differential test for refactoring 1 (gameplay.py: nested generator expression / tuple unpacking).

Run with cwd=/tmp/wt12/W07.  The ORIGINAL package is exported from git HEAD into a temporary directory, the REFACTORED
one is the worktree.  Each is imported in its own subprocess (the package uses absolute imports, so it cannot be renamed),
runs the same list of cases and pickles a canonical form of every result; the parent compares them exactly.
"""
import io
import os
import pickle  # nosec
import subprocess  # nosec
import sys
import tarfile
import tempfile
from pathlib import Path

WORKTREE = Path.cwd()


# --------------------------------------------------------------------------------------------------------------------
# canonical forms
def canon(obj):
    """Turn a result into something that can be pickled and compared with ==, bit for bit."""
    import numpy as np
    if isinstance(obj, np.ndarray):
        return ("ndarray", str(obj.dtype), obj.shape, np.ascontiguousarray(obj).tobytes(),
                bool(obj.flags["C_CONTIGUOUS"]), bool(obj.flags["F_CONTIGUOUS"]))
    if isinstance(obj, np.generic):
        return ("npscalar", str(obj.dtype), obj.tobytes())
    if isinstance(obj, float):
        return ("float", obj.hex())
    if isinstance(obj, (bool, int, str, type(None))):
        return (type(obj).__name__, obj)
    if isinstance(obj, (list, tuple)):
        return (type(obj).__name__, [canon(x) for x in obj])
    if isinstance(obj, dict):
        return ("dict", [(canon(k), canon(v)) for k, v in obj.items()])
    if type(obj).__name__ == "Coalition":
        return ("Coalition", obj.id)
    raise TypeError(f"cannot canonicalise {type(obj)}")


def guarded(fn):
    """Run a case; exceptions are part of the observable behaviour."""
    try:
        return ("ok", canon(fn()))
    except BaseException as e:  # noqa
        return ("exc", type(e).__name__, str(e))


# --------------------------------------------------------------------------------------------------------------------
# the cases (executed inside the worker, i.e. with one of the two source trees)
def make_gap_sum(game):
    """A second gap function (picklable: module level)."""
    import numpy as np
    return np.sum(game.get_upper_bounds() - game.get_lower_bounds())


def run_cases():
    import numpy as np
    from incomplete_cooperative import gameplay, generators
    from incomplete_cooperative.bounds import BOUNDS
    from incomplete_cooperative.coalitions import (Coalition, all_coalitions,
                                                   minimal_game_coalitions)
    from incomplete_cooperative.game import IncompleteCooperativeGame
    from incomplete_cooperative.generators import GENERATORS
    from incomplete_cooperative.run.best_states import get_best_exploitability
    from incomplete_cooperative.run.model import GAP_FUNCTIONS, ModelInstance

    results = []

    def record(name, fn):
        # the graph generators draw from an unseeded module-level stream: put it into a known state before every case
        generators._gen.bit_generator.state = np.random.default_rng(len(results)).bit_generator.state
        results.append((name, guarded(fn)))

    sup = BOUNDS["superadditive"]

    def game_with_known(n, known_ids, gen_name="factory", seed=0):
        full = GENERATORS[gen_name](n, np.random.default_rng(seed))
        game = IncompleteCooperativeGame(n, sup)
        known = [Coalition(i) for i in known_ids]
        game.set_known_values(full.get_values(known), known)
        return game, full

    # 1. possible_action_sequences: order, multiplicity, laziness, exceptions --------------------------------------
    rng = np.random.default_rng(12345)
    for n in (2, 3, 4):
        minimal = sorted(c.id for c in minimal_game_coalitions(n))
        others = [i for i in range(2**n) if i not in minimal]
        known_sets = [minimal, list(range(2**n)), [0], []]
        for _ in range(12):
            extra = [i for i in others if rng.random() < 0.5]
            known_sets.append(sorted(minimal + extra))
        for ks, known_ids in enumerate(known_sets):
            game, _ = game_with_known(n, known_ids)
            limit = 2**n - len(known_ids)
            sizes = [None, -3, -1, 0, 1, 2, 3, limit, limit + 2]
            if n == 4:
                sizes = [s for s in sizes if s is None or s <= 3] if limit > 6 else sizes
                if limit > 10:
                    sizes = [s for s in sizes if s is not None]
            for max_size in sizes:
                def case(game=game, max_size=max_size):
                    res = gameplay.possible_action_sequences(game, max_size=max_size)
                    # an iterator, consumed exactly once
                    is_iter = iter(res) is res
                    out = [(type(seq).__name__, [c.id for c in seq]) for seq in res]
                    return [is_iter, out, list(res)]
                record(f"pas n={n} known#{ks} max={max_size}", case)
            # the default argument
            if limit <= 8:
                record(f"pas-default n={n} known#{ks}",
                       lambda game=game: [[c.id for c in s] for s in gameplay.possible_action_sequences(game)])
            # wrong types of the limit: the error and the moment it is raised (at the call, not at the first `next`)
            for bad in (1.5, "2", [1], 2.0, True, np.int64(2), np.float64(1.0)):
                def bad_case(game=game, bad=bad):
                    try:
                        it = gameplay.possible_action_sequences(game, max_size=bad)
                    except BaseException as e:  # noqa
                        return ["at call", type(e).__name__, str(e)]
                    try:
                        first = next(it, "empty")
                        first = first if isinstance(first, str) else [c.id for c in first]
                        rest = [[c.id for c in s] for s in it]
                    except BaseException as e:  # noqa
                        return ["at next", type(e).__name__, str(e)]
                    return ["fine", first, len(rest), rest[-1:] if rest else []]
                record(f"pas-bad n={n} known#{ks} max={bad!r}", bad_case)

    # laziness with respect to the game: the unknown coalitions are read at the call, later changes do not matter
    for n in (3, 4):
        def lazy_case(n=n):
            minimal = sorted(c.id for c in minimal_game_coalitions(n))
            game, full = game_with_known(n, minimal)
            it = gameplay.possible_action_sequences(game, max_size=2)
            game.reveal_value(full.get_value(Coalition(3)), Coalition(3))
            return [[c.id for c in s] for s in it]
        record(f"pas-lazy n={n}", lazy_case)

    # 2. get_exploitabilities_of_action_sequences / sample_... ------------------------------------------------------
    gen_names = ["factory", "noisy_factory", "factory_cheerleader", "graph", "graph_cycle", "xos", "additive",
                 "covg_fn", "k_budget", "oxs", "xs", "predictible_factory", "graph_random"]
    gen_names = [g for g in gen_names if g in GENERATORS]
    gap_funcs = dict(GAP_FUNCTIONS)
    gap_funcs["sum_gap"] = make_gap_sum
    for gen_name in gen_names:
        for seed in (0, 1, 2):
            for gap_index, (gap_name, gap) in enumerate(gap_funcs.items()):
                if seed > 0 and gap_index != (seed + len(gen_name)) % len(gap_funcs):
                    continue  # all gap functions with seed 0, one (rotating) with the other seeds
                n = 3 if (seed + len(gap_name)) % 2 else 4
                max_size = 2 if n == 4 else None
                for processes in (1, 2) if (seed == 0 and gap_name in ("exploitability", "sum_gap")) else (1,):
                    def direct(gen_name=gen_name, seed=seed, gap=gap, n=n, max_size=max_size, processes=processes):
                        minimal = sorted(c.id for c in minimal_game_coalitions(n))
                        game, full = game_with_known(n, minimal + ([3] if seed == 1 else []), gen_name, seed)
                        out = gameplay.get_exploitabilities_of_action_sequences(
                            game, full, gap, max_size=max_size, processes=processes)
                        return [type(out).__name__, [(type(item).__name__, len(item), [c.id for c in item[0]], item[1])
                                                     for item in out],
                                np.copy(game._values)]
                    record(f"geas {gen_name} seed={seed} gap={gap_name} p={processes}", direct)

                    for samples in (1, 3):
                        def sampled(gen_name=gen_name, seed=seed, gap=gap, n=n, max_size=max_size,
                                    processes=processes, samples=samples):
                            minimal = sorted(c.id for c in minimal_game_coalitions(n))
                            game, _ = game_with_known(n, minimal + ([5] if seed == 2 else []), gen_name, seed)
                            stream = np.random.default_rng(100 + seed)
                            calls = []

                            def generator(players):
                                calls.append(players)
                                return GENERATORS[gen_name](players, stream)
                            kwargs = {"processes": processes}
                            if max_size is not None:
                                kwargs["max_size"] = max_size
                            actions, values = gameplay.sample_exploitabilities_of_action_sequences(
                                game, generator, gap, samples, **kwargs)
                            return [[[c.id for c in seq] for seq in actions], values, calls,
                                    stream.bit_generator.state["state"]["state"],
                                    np.copy(game._values), game.are_values_known(list(all_coalitions(game)))]
                        record(f"sample {gen_name} seed={seed} gap={gap_name} p={processes} s={samples}", sampled)

    # samples == 0 (an IndexError after the first run) and a failing gap function
    def zero_samples():
        game, full = game_with_known(3, sorted(c.id for c in minimal_game_coalitions(3)))
        return gameplay.sample_exploitabilities_of_action_sequences(game, lambda p: full, make_gap_sum, 0)
    record("sample zero", zero_samples)

    def failing_generator():
        game, full = game_with_known(3, sorted(c.id for c in minimal_game_coalitions(3)))
        state = {"n": 0}

        def generator(players):
            state["n"] += 1
            if state["n"] == 2:
                raise RuntimeError("no more games")
            return full
        return gameplay.sample_exploitabilities_of_action_sequences(game, generator, make_gap_sum, 3)
    record("sample failing generator", failing_generator)

    # 3. the single-sequence helpers of the same module (share the worker function) ---------------------------------
    for seed in range(6):
        def stacked(seed=seed):
            n = 4
            minimal = sorted(c.id for c in minimal_game_coalitions(n))
            game, _ = game_with_known(n, minimal, "factory", seed)
            fulls = [GENERATORS["noisy_factory"](n, np.random.default_rng(10 * seed + j)) for j in range(3)]
            seqs = [[Coalition(3)], [Coalition(5), Coalition(6)], [], [Coalition(7), Coalition(3), Coalition(14)]]
            return list(gameplay.get_stacked_exploitabilities_of_action_sequences(
                game, fulls, seqs, GAP_FUNCTIONS["exploitability"]))
        record(f"stacked seed={seed}", stacked)

    # 4. best states on top of it -----------------------------------------------------------------------------------
    for gen_name in ("factory", "noisy_factory", "graph", "xos"):
        if gen_name not in GENERATORS:
            continue
        for seed in (3, 4, 5):
            for gap_name in ("exploitability", "l1_norm"):
                for processes in (1, 2) if seed == 3 else (1,):
                    def best(gen_name=gen_name, seed=seed, gap_name=gap_name, processes=processes):
                        instance = ModelInstance(number_of_players=4, game_generator=gen_name, gap_function=gap_name,
                                                 run_steps_limit=2, seed=seed, parallel_environments=processes)
                        env = instance.get_env()
                        values, acts = get_best_exploitability(env, 2, 3, instance.gap_function_callable,
                                                               processes=processes)
                        return [values, acts]
                    record(f"best {gen_name} seed={seed} gap={gap_name} p={processes}", best)
    return results


# --------------------------------------------------------------------------------------------------------------------
def worker(root: str, out: str) -> None:
    sys.path.insert(0, root)
    import incomplete_cooperative
    assert Path(incomplete_cooperative.__file__).resolve().is_relative_to(Path(root).resolve()), \
        incomplete_cooperative.__file__  # nosec
    results = run_cases()
    with open(out, "wb") as f:
        pickle.dump(results, f)


def export_original(target: Path) -> None:
    data = subprocess.run(["git", "-C", str(WORKTREE), "archive", "HEAD", "incomplete_cooperative"],  # nosec
                          check=True, capture_output=True).stdout
    with tarfile.open(fileobj=io.BytesIO(data)) as tar:
        tar.extractall(target)  # nosec


def main() -> int:
    env = dict(os.environ, OMP_NUM_THREADS="1", MKL_NUM_THREADS="1", PYTHONDONTWRITEBYTECODE="1")
    env.pop("PYTHONPATH", None)
    with tempfile.TemporaryDirectory() as tmp:
        tmp_path = Path(tmp)
        original_root = tmp_path / "original"
        original_root.mkdir()
        export_original(original_root)
        outputs = {}
        for name, root in (("original", original_root), ("refactored", WORKTREE)):
            out = tmp_path / f"{name}.pkl"
            subprocess.run([sys.executable, __file__, "--worker", str(root), str(out)],  # nosec
                           check=True, env=env, cwd=tmp)
            with out.open("rb") as f:
                outputs[name] = pickle.load(f)  # nosec
    original, refactored = outputs["original"], outputs["refactored"]
    changed = subprocess.run(["git", "-C", str(WORKTREE), "diff", "--stat"], capture_output=True,  # nosec
                             text=True, check=True).stdout.strip()
    print(f"cases: {len(original)}; failing in both trees the same way: "
          f"{sum(1 for _, r in original if r[0] == 'exc')}")
    from collections import Counter
    print("exceptions by case family:", dict(Counter((n.split()[0], r[1]) for n, r in original if r[0] == "exc")))
    print("worktree diff:", changed.splitlines()[-1] if changed else "(none!)")
    if [n for n, _ in original] != [n for n, _ in refactored]:
        print("DIFFERENT: the case lists differ")
        return 1
    for (name, a), (_, b) in zip(original, refactored):
        if a != b:
            print("DIFFERENT")
            print("case:", name)
            print("original:  ", repr(a)[:2000])
            print("refactored:", repr(b)[:2000])
            return 1
    print("EQUIVALENT")
    return 0


if __name__ == "__main__":
    if len(sys.argv) > 1 and sys.argv[1] == "--worker":
        worker(sys.argv[2], sys.argv[3])
    else:
        sys.exit(main())
