"""Differential equivalence check for refactoring K of incomplete_cooperative/regret.py.

Extracts the ORIGINAL package from git HEAD into a temporary directory, runs the same
deterministic driver against it and against the current worktree (patch applied) in two
separate interpreters, and compares the pickled outcomes byte for byte.
Exit status 0 iff identical.
"""
import os
import pickle
import shutil
import subprocess
import sys
import tempfile

K = 2
WT = "/tmp/wt_y5_Y04"
PY = "/venv/bin/python"

DRIVER = r'''
import itertools, json, os, pickle, sys
from pathlib import Path
import numpy as np
import incomplete_cooperative.regret as R
from incomplete_cooperative.regret import (GameRegretMinimizer, RMValue, coalitions_up_to,
                                           get_coalition_player_id_map,
                                           metacoalition_ids_by_coalition_size)
from incomplete_cooperative.coalitions import Coalition

OUT = []


def canon(x):
    if isinstance(x, np.ndarray):
        return ("nd", x.dtype.str, x.shape, x.flags["C_CONTIGUOUS"], x.tobytes())
    if isinstance(x, np.generic):
        return ("ns", x.dtype.str, x.tobytes())
    if isinstance(x, BaseException):
        return ("exc", type(x).__module__, type(x).__name__, str(x))
    if isinstance(x, (list, tuple)):
        return (type(x).__name__, [canon(y) for y in x])
    if isinstance(x, dict):
        return ("dict", [(canon(k), canon(v)) for k, v in x.items()])
    if isinstance(x, Path):
        return ("path", str(x))
    if isinstance(x, Coalition):
        return ("coal", x.id)
    if isinstance(x, (int, float, str, bool, bytes, type(None))):
        return (type(x).__name__, x)
    return ("other", type(x).__name__, repr(x))


def rec(tag, fn, *a, **kw):
    try:
        r = fn(*a, **kw)
    except BaseException as e:  # noqa
        r = e
    OUT.append((tag, canon(r)))
    return r


def state(rm):
    return {k: v for k, v in vars(rm).items()}


def dirstate(p):
    p = Path(p)
    if not p.exists():
        return None
    if p.is_file():
        return p.read_bytes()
    return {q.name: dirstate(q) for q in sorted(p.iterdir())}


# ---- module-level helpers
for n in range(0, 6):
    rec(("map", n), get_coalition_player_id_map, n)
    for lim in range(-2, 9):
        if n == 5 and lim > 3:
            continue
        rec(("ids", n, lim), metacoalition_ids_by_coalition_size, n, lim)
        rec(("upto", n, lim), coalitions_up_to, n, lim)
rec(("map", "float"), get_coalition_player_id_map, 3.0)
rec(("map", "str"), get_coalition_player_id_map, "3")
rec(("map", "neg"), get_coalition_player_id_map, -1)
rec("RMValue", lambda: RMValue is np.float32)
rec("public", lambda: sorted(n for n in dir(R) if not n.startswith("_")
                             and getattr(getattr(R, n), "__module__", None) == R.__name__))
rec("methods", lambda: sorted(n for n in vars(GameRegretMinimizer) if not n.startswith("_")))

# ---- constructor, incl. exceptional
for n, lim, plus in itertools.product(range(0, 5), range(-1, 5), (False, True)):
    rm = rec(("init", n, lim, plus), lambda: state(GameRegretMinimizer(n, lim, plus)))
rec(("init", 5, 2), lambda: state(GameRegretMinimizer(5, 2)))
rec(("init", "3"), lambda: state(GameRegretMinimizer("3", 2)))
rec(("init", 3.0), lambda: state(GameRegretMinimizer(3.0, 2)))
rec(("init", 3, 1.5), lambda: state(GameRegretMinimizer(3, 1.5)))


def leaves(rm):
    """All maximal action sequences as lists of coalitions, in rank order."""
    pid_to_coal = np.flatnonzero(rm.coalitions_to_player_ids >= 0)
    depth = min(rm.limit_of_revealed, rm.number_of_coalitions)
    res = []
    for rank in range(rm.viable_metacoalitions):
        pids = list(Coalition(int(rm.meta_rank_to_id[rank])).players)
        if len(pids) == depth:
            res.append([Coalition(int(pid_to_coal[p])) for p in pids])
    return res


def probe(tag, rm, rng):
    C = rm.number_of_coalitions
    pid_to_coal = np.flatnonzero(rm.coalitions_to_player_ids >= 0)
    ids = [int(x) for x in rm.meta_rank_to_id[:rm.number_of_regret_minimizers]]
    ids = ids[:40] + ids[-10:]
    for m in ids:
        rec((tag, "rms-int", m), rm.regret_matching_strategy, m)
    for extra in (True, False, np.int64(1), 1.0, "a", None, 10**9, -1, -10**9,
                  int(rm.meta_rank_to_id[-1])):
        rec((tag, "rms-odd", repr(extra)), rm.regret_matching_strategy, extra)
    for _ in range(12):
        k = int(rng.integers(0, max(1, min(rm.limit_of_revealed, C))))
        pids = rng.choice(C, size=k, replace=False)
        coals = [Coalition(int(pid_to_coal[p])) for p in pids]
        # sprinkle K_0 coalitions, which must be ignored
        coals += [Coalition(0), Coalition(1), Coalition(2 ** rm.number_of_players - 1)]
        rec((tag, "mid", tuple(c.id for c in coals)), rm.get_metacoalition_id, coals)
        rec((tag, "rms-list", tuple(c.id for c in coals)), rm.regret_matching_strategy, coals)
        rec((tag, "rms-tuple", tuple(c.id for c in coals)), rm.regret_matching_strategy, tuple(coals))
        rec((tag, "avg", tuple(c.id for c in coals)), rm.get_average_strategy, coals)
        rec((tag, "rms-gen", tuple(c.id for c in coals)), rm.regret_matching_strategy, iter(coals))
    rec((tag, "rms-empty"), rm.regret_matching_strategy, [])
    rec((tag, "avg-empty"), rm.get_average_strategy, [])
    rec((tag, "avg-bad"), rm.get_average_strategy, [3])
    rec((tag, "avg-full"), rm.get_average_strategy, [Coalition(int(c)) for c in pid_to_coal])
    rec((tag, "rms-full"), rm.regret_matching_strategy, [Coalition(int(c)) for c in pid_to_coal])


def save_load(tag, rm, name):
    p = Path(name)
    rec((tag, "save"), rm.save, p)
    rec((tag, "save-files"), dirstate, p)
    rec((tag, "save-again"), rm.save, p)
    rec((tag, "save-files2"), dirstate, p)
    rec((tag, "save-nested"), rm.save, p / "a" / "b")
    rec((tag, "save-files3"), dirstate, p)
    r2 = rec((tag, "load"), lambda: state(GameRegretMinimizer.load(p)))
    rec((tag, "load-type"), lambda: type(GameRegretMinimizer.load(p)).__name__)
    return p


counter = 0
rng = np.random.default_rng(20240)
for n, lim, plus in itertools.product((3, 4), (0, 1, 2, 3, 4, 9), (False, True)):
    if n == 4 and lim > 3:
        continue
    counter += 1
    tag = ("rm", n, lim, plus)
    rm = GameRegretMinimizer(n, lim, plus)
    probe(tag + ("fresh",), rm, rng)
    used = leaves(rm)
    rec(tag + ("nleaves",), len, used)
    for it in range(4):
        losses = rng.normal(size=len(used)).astype([np.float64, np.float32, np.float64, np.int64][it])
        if it == 3:
            losses = rng.integers(-3, 4, size=len(used))
        perm = rng.permutation(len(used))
        rec(tag + ("iter", it), rm.regret_min_iteration, losses[perm], [used[j] for j in perm])
        rec(tag + ("state", it), state, rm)
        probe(tag + ("after", it), rm, rng)
    # exceptional iterations
    rec(tag + ("iter-badshape",), rm.regret_min_iteration, np.zeros(len(used) + 1), used)
    rec(tag + ("state-badshape",), state, rm)
    rec(tag + ("iter-badact",), rm.regret_min_iteration, np.zeros(1), [[5]])
    rec(tag + ("state-badact",), state, rm)
    rec(tag + ("iter-empty",), rm.regret_min_iteration, np.zeros(0), [])
    rec(tag + ("state-empty",), state, rm)
    rec(tag + ("iter-nan",), rm.regret_min_iteration,
        np.where(np.arange(len(used)) % 3 == 0, np.nan, 1.0), used)
    rec(tag + ("state-nan",), state, rm)
    probe(tag + ("nan",), rm, rng)
    save_load(tag, rm, f"save_{counter}")

# ---- custom state: float64 regrets, negatives, zeros, subclass, save/load oddities
class Sub(GameRegretMinimizer):
    pass

rm = Sub(3, 2, True)
rm.cumulative_regret = rng.normal(size=rm.cumulative_regret.shape)
rm.cumulative_strategy = np.abs(rng.normal(size=rm.cumulative_strategy.shape))
rm.cumulative_strategy[1] = 0
rm.cumulative_regret[2] = -1
rm.iteration = 17
probe(("sub",), rm, rng)
p = save_load(("sub",), rm, "save_sub")
rec(("sub", "cls"), lambda: type(Sub.load(p)).__name__)
rec(("sub", "iter"), rm.regret_min_iteration, np.array([1., 0., 2.]), leaves(rm))
rec(("sub", "state"), state, rm)

rm = GameRegretMinimizer(3, 2)
rec("save-str", rm.save, "save_str")
rec("save-str-dir", dirstate, "save_str")
rec("load-str", GameRegretMinimizer.load, "save_sub")
rec("load-missing", GameRegretMinimizer.load, Path("nowhere"))
Path("afile").write_text("x")
rec("save-onfile", rm.save, Path("afile"))
rec("save-underfile", rm.save, Path("afile") / "x")
rec("load-onfile", GameRegretMinimizer.load, Path("afile"))
rec("afile", dirstate, "afile")
# unserialisable parameter: what is on disk afterwards?
rm.plus = np.bool_(True)
rec("save-npbool", rm.save, Path("save_npbool"))
rec("save-npbool-dir", dirstate, "save_npbool")
rm.plus = False
rm.iteration = np.int64(3)
rec("save-npint", rm.save, Path("save_npint"))
rec("save-npint-dir", dirstate, "save_npint")
rm.iteration = 2.5
rec("save-float", rm.save, Path("save_float"))
rec("save-float-dir", dirstate, "save_float")
rec("load-float", lambda: state(GameRegretMinimizer.load(Path("save_float"))))
# params variations
base = {"iteration": 4, "number_of_players": 3, "limit_of_revealed": 2, "plus": True}
variants = [dict(base, extra=1), {k: v for k, v in base.items() if k != "iteration"},
            {k: v for k, v in base.items() if k != "plus"}, {}, dict(base, number_of_players="x"),
            {k: v for k, v in base.items() if k not in ("iteration", "number_of_players")},
            dict(base, limit_of_revealed=-1), dict(base, number_of_players=4)]
for i, v in enumerate(variants):
    d = Path(f"var_{i}")
    d.mkdir()
    (d / "params.json").write_text(json.dumps(v))
    rec(("var-noarr", i), lambda: state(GameRegretMinimizer.load(d)))
    np.save(d / "regret.npy", np.arange(6.0).reshape(2, 3))
    rec(("var-nostrat", i), lambda: state(GameRegretMinimizer.load(d)))
    np.save(d / "strategy.npy", np.arange(6).reshape(3, 2))
    rec(("var", i), lambda: state(GameRegretMinimizer.load(d)))
d = Path("var_badjson")
d.mkdir()
(d / "params.json").write_text("{not json")
rec("var-badjson", GameRegretMinimizer.load, d)
(d / "params.json").write_text("[1, 2]")
rec("var-listjson", GameRegretMinimizer.load, d)

with open(sys.argv[1], "wb") as f:
    pickle.dump(OUT, f, protocol=4)
import collections
print("exception outcomes:", sorted(collections.Counter(o[1][2] for o in OUT if o[1][0] == "exc").items()))
print(len(OUT))
'''


def run(label, pkg_root, work):
    cwd = os.path.join(work, "cwd_" + label)
    os.mkdir(cwd)
    out = os.path.join(work, label + ".pkl")
    drv = os.path.join(work, "driver.py")
    env = dict(os.environ, PYTHONPATH=pkg_root, OMP_NUM_THREADS="1", PYTHONHASHSEED="0",
               PYTHONDONTWRITEBYTECODE="1")
    res = subprocess.run([PY, drv, out], cwd=cwd, env=env, capture_output=True, text=True)
    if res.returncode != 0:
        print(label, "driver failed:\n", res.stdout[-2000:], res.stderr[-4000:])
        sys.exit(2)
    with open(out, "rb") as f:
        raw = f.read()
    print(label, res.stdout.strip().splitlines()[0][:600])
    return raw, int(res.stdout.strip().splitlines()[-1])


def main():
    work = tempfile.mkdtemp(prefix=f"y04_equiv{K}_")
    try:
        orig = os.path.join(work, "orig")
        os.mkdir(orig)
        tar = subprocess.run(["git", "archive", "HEAD", "incomplete_cooperative"], cwd=WT,
                             check=True, capture_output=True).stdout
        subprocess.run(["tar", "-x", "-C", orig], input=tar, check=True)
        diff = subprocess.run(["git", "diff", "--stat", "HEAD"], cwd=WT, capture_output=True, text=True).stdout
        if not diff.strip():
            print("WARNING: worktree has no diff against HEAD (comparing HEAD with itself)")
        with open(os.path.join(work, "driver.py"), "w") as f:
            f.write(DRIVER)
        raw_a, n_a = run("orig", orig, work)
        raw_b, n_b = run("new", WT, work)
        if raw_a == raw_b:
            print(f"equiv_{K}: IDENTICAL ({n_a} recorded outcomes, {len(raw_a)} bytes)")
            return 0
        a, b = pickle.loads(raw_a), pickle.loads(raw_b)
        print(f"equiv_{K}: DIFFERENT ({n_a} vs {n_b} outcomes)")
        shown = 0
        for x, y in zip(a, b):
            if x != y:
                print(" first differences at", x[0], "\n   orig:", repr(x[1])[:400], "\n   new: ", repr(y[1])[:400])
                shown += 1
                if shown >= 5:
                    break
        return 1
    finally:
        shutil.rmtree(work, ignore_errors=True)


if __name__ == "__main__":
    sys.exit(main())
