"""Differential test for refactoring 2 (coalitions.py: set operators inline player_to_coalition through a
conditional expression; the `players` generator is a for loop over itertools.count instead of a while loop).

Run with cwd=/tmp/wt10/U04.  Loads the ORIGINAL package source from git HEAD under the name `icg_orig`
and the refactored one from the worktree and compares every operation of the object-based coalition
representation (results with their types, exceptions, order of enumeration) exhaustively for small player
counts, with Python-int and NumPy ids, with ill-typed operands, and through the downstream users
(object-based bounds, Shapley value, generators).
"""
import atexit
import importlib
import itertools
import re
import shutil
import subprocess  # nosec
import sys
import tempfile
from pathlib import Path

import numpy as np

WT = "/tmp/wt10/U04"
ORIG = "icg_orig"


def load_original():
    tmp = Path(tempfile.mkdtemp(prefix="icg_orig_"))
    files = subprocess.check_output(  # nosec
        ["git", "-C", WT, "ls-tree", "-r", "--name-only", "HEAD", "incomplete_cooperative"], text=True).split("\n")
    for f in files:
        if not f.endswith(".py") or "/tests/" in f:
            continue
        src = subprocess.check_output(["git", "-C", WT, "show", f"HEAD:{f}"], text=True)  # nosec
        src = re.sub(r"\bincomplete_cooperative\b", ORIG, src)
        dest = tmp / ORIG / Path(f).relative_to("incomplete_cooperative")
        dest.parent.mkdir(parents=True, exist_ok=True)
        dest.write_text(src)
    sys.path.insert(0, str(tmp))
    atexit.register(shutil.rmtree, str(tmp), ignore_errors=True)
    return tmp


load_original()
sys.path.insert(0, WT)


def mods(pkg):
    return {name: importlib.import_module(f"{pkg}.{name}")
            for name in ["coalitions", "coalition_ids", "game", "bounds", "generators", "shapley",
                         "supermodularity_check", "game_properties"]}


O = mods(ORIG)
N = mods("incomplete_cooperative")
assert N["coalitions"].__file__.startswith(WT)
assert not O["coalitions"].__file__.startswith(WT)

LIMIT = 70  # negative ids make `players` an endless generator: compare a prefix


def freeze(x, depth=0):
    """Turn a result into something comparable across the two packages, keeping types."""
    if type(x).__name__ == "Coalition":
        return ("Coalition", type(x.id).__name__, freeze(x.id))
    if isinstance(x, np.ndarray):
        return ("ndarray", x.dtype.str, x.shape, x.tobytes())
    if isinstance(x, np.generic):
        return ("np", type(x).__name__, x.tobytes())
    if isinstance(x, (bool, int, float, str, type(None))):
        return (type(x).__name__, repr(x))
    if isinstance(x, (list, tuple, set, frozenset)):
        return (type(x).__name__, tuple(freeze(y, depth + 1) for y in x))
    if hasattr(x, "__next__") or hasattr(x, "__iter__"):
        return ("iter", type(x).__name__, tuple(freeze(y, depth + 1) for y in itertools.islice(x, LIMIT)))
    return ("other", type(x).__name__, repr(x))


def call(fn):
    try:
        return ("ok", freeze(fn()))
    except Exception as e:  # noqa
        return ("exc", type(e).__name__, str(e))


class Diff(Exception):
    pass


CASES = 0


def check(label, fo, fn):
    global CASES
    CASES += 1
    a, b = call(fo), call(fn)
    if a != b:
        raise Diff(f"{label}\n  original : {a}\n  refactored: {b}")


def both(label, f):
    """f(M) is evaluated in both packages."""
    check(label, lambda: f(O), lambda: f(N))


def id_variants(i):
    yield "int", i
    yield "np.int32", np.int32(i)
    yield "np.int64", np.int64(i)


def exhaustive():
    for n in (0, 1, 2, 3, 4, 5):
        size = 2**n
        for a in range(size):
            for kind, aid in id_variants(a):
                lab = f"n={n} a={a} ({kind})"
                both(f"players {lab}", lambda M: M["coalitions"].Coalition(aid).players)
                both(f"list(players) {lab}", lambda M: list(M["coalitions"].Coalition(aid).players))
                both(f"len {lab}", lambda M: len(M["coalitions"].Coalition(aid)))
                both(f"hash {lab}", lambda M: hash(M["coalitions"].Coalition(aid)))
                both(f"inverted {lab}", lambda M: M["coalitions"].Coalition(aid).inverted(n))
                both(f"sub_coalitions {lab}", lambda M: M["coalitions"].get_sub_coalitions(M["coalitions"].Coalition(aid)))
                both(f"super_coalitions {lab}",
                     lambda M: M["coalitions"].get_super_coalitions(M["coalitions"].Coalition(aid), n))
                both(f"from_players(players) {lab}",
                     lambda M: M["coalitions"].Coalition.from_players(M["coalitions"].Coalition(aid).players))
                both(f"exclude {lab}", lambda M: M["coalitions"].exclude_coalition(
                    M["coalitions"].Coalition(aid), M["coalitions"].all_coalitions(n)))
                # players as operands: python ints, bools, numpy ints (not `Player`: attribute error), negatives
                for p in list(range(n + 2)) + [True, False, -1, np.int64(1), np.int32(0), 1.0, "x", None]:
                    pl = f"{lab} p={p!r}"
                    both(f"contains {pl}", lambda M: p in M["coalitions"].Coalition(aid))
                    both(f"and {pl}", lambda M: M["coalitions"].Coalition(aid) & p)
                    both(f"or {pl}", lambda M: M["coalitions"].Coalition(aid) | p)
                    both(f"sub {pl}", lambda M: M["coalitions"].Coalition(aid) - p)
                    both(f"add {pl}", lambda M: M["coalitions"].Coalition(aid) + p)
                    both(f"eq {pl}", lambda M: M["coalitions"].Coalition(aid) == p)
                    both(f"rand {pl}", lambda M: p & M["coalitions"].Coalition(aid))
                    both(f"ror {pl}", lambda M: p | M["coalitions"].Coalition(aid))
            if n > 4:
                continue
            for b in range(size):
                for (ka, aid), (kb, bid) in zip(id_variants(a), id_variants(b)):
                    lab = f"n={n} a={a} b={b} ({ka})"

                    def two(M):
                        C = M["coalitions"].Coalition
                        return C(aid), C(bid)
                    both(f"contains {lab}", lambda M: (lambda x, y: y in x)(*two(M)))
                    both(f"and {lab}", lambda M: (lambda x, y: x & y)(*two(M)))
                    both(f"or {lab}", lambda M: (lambda x, y: x | y)(*two(M)))
                    both(f"sub {lab}", lambda M: (lambda x, y: x - y)(*two(M)))
                    both(f"eq {lab}", lambda M: (lambda x, y: x == y)(*two(M)))
                    both(f"disjoint {lab}", lambda M: M["coalitions"].disjoint_coalitions(*two(M)))
                # mixed id types
                both(f"mixed and n={n} a={a} b={b}",
                     lambda M: M["coalitions"].Coalition(a) & M["coalitions"].Coalition(np.int32(b)))
                both(f"mixed contains n={n} a={a} b={b}",
                     lambda M: M["coalitions"].Coalition(np.int64(b)) in M["coalitions"].Coalition(a))


def odd_ids():
    big = [2**31 - 1, 2**31, 2**40 + 5, 2**64, 2**100 + 3]
    odd = [-1, -2, -6, np.int32(-3), 3.0, 0.0, "3", None, np.array([3, 5]), True]
    for aid in big + odd:
        lab = f"id={aid!r}"
        both(f"players {lab}", lambda M: M["coalitions"].Coalition(aid).players)
        if not (isinstance(aid, (int, np.integer)) and aid < 0):
            both(f"len {lab}", lambda M: len(M["coalitions"].Coalition(aid)))  # endless for negative ids in both
        for p in [0, 1, 5, 40, True]:
            both(f"contains {lab} {p}", lambda M: p in M["coalitions"].Coalition(aid))
            both(f"and {lab} {p}", lambda M: M["coalitions"].Coalition(aid) & p)
            both(f"or {lab} {p}", lambda M: M["coalitions"].Coalition(aid) | p)
        for bid in big + odd + [0, 1, 6]:
            both(f"contains {lab} {bid!r}", lambda M: M["coalitions"].Coalition(bid) in M["coalitions"].Coalition(aid))
            both(f"and {lab} {bid!r}", lambda M: M["coalitions"].Coalition(aid) & M["coalitions"].Coalition(bid))
            both(f"or {lab} {bid!r}", lambda M: M["coalitions"].Coalition(aid) | M["coalitions"].Coalition(bid))
    # operands that are neither players nor coalitions
    for other in [1.5, "a", None, [1], (0,), np.array([1]), object]:
        both(f"contains other {other!r}", lambda M: other in M["coalitions"].Coalition(5))
        both(f"and other {other!r}", lambda M: M["coalitions"].Coalition(5) & other)
        both(f"or other {other!r}", lambda M: M["coalitions"].Coalition(5) | other)


def generator_protocol():
    """The `players` generator is lazy and resumable in the same way."""
    for aid in [0, 1, 5, 0b101101, -1, np.int32(10)]:
        def steps(M):
            g = M["coalitions"].Coalition(aid).players
            out = [type(g).__name__]
            for _ in range(5):
                try:
                    out.append(next(g))
                except StopIteration:
                    out.append("stop")
            g.close()
            out.append(list(g))
            return out
        both(f"generator protocol {aid!r}", steps)


def downstream():
    for n in (2, 3, 4, 5):
        for seed in range(3):
            for gname in ["factory", "factory_cheerleader", "noisy_factory", "covg_fn_generator", "k_budget_generator",
                          "xs", "xs3", "graph_cycle", "additive"]:
                def gen(M):
                    if gname == "additive":
                        return M["generators"].additive(n, np.random.default_rng(seed))
                    return M["generators"].GENERATORS[gname](n, np.random.default_rng(seed))
                both(f"generator {gname} n={n} seed={seed}", lambda M: np.array(gen(M).get_values()))
                both(f"shapley {gname} n={n} seed={seed}", lambda M: np.array(list(M["shapley"].compute_shapley_value(gen(M)))))
                both(f"supermodularity {gname} n={n} seed={seed}",
                     lambda M: M["supermodularity_check"].check_supermodularity(gen(M)))

                def bounds(M, key):
                    full = gen(M)
                    values = np.array(full.get_values(), dtype=float)
                    rng = np.random.default_rng(seed + 5)
                    game = M["game"].IncompleteCooperativeGame(n, M["bounds"].BOUNDS[key])
                    known = list(M["coalitions"].minimal_game_coalitions(n))
                    known += [c for c in M["coalitions"].all_coalitions(n)
                              if c not in [k for k in known if k == c] and rng.random() < 0.4]
                    game.set_known_values(values[[c.id for c in known]], known)
                    game.compute_bounds()
                    return game._values.copy()
                for key in ["superadditive", "superadditive_cached", "sam_apx_1"]:
                    both(f"bounds {key} {gname} n={n} seed={seed}", lambda M: bounds(M, key))
        both(f"minimal_game_coalitions {n}", lambda M: M["coalitions"].minimal_game_coalitions(n))
        both(f"minimal_game_coalitions game {n}",
             lambda M: M["coalitions"].minimal_game_coalitions(M["game"].IncompleteCooperativeGame(n)))
        both(f"known coalitions {n}", lambda M: M["coalitions"].get_known_coalitions(M["game"].IncompleteCooperativeGame(n)))
        both(f"grand {n}", lambda M: M["coalitions"].grand_coalition(n))


def main():
    try:
        exhaustive()
        odd_ids()
        generator_protocol()
        downstream()
    except Diff as d:
        print("DIFFERENT")
        print(d)
        return 1
    print(f"{CASES} cases")
    print("EQUIVALENT")
    return 0


if __name__ == "__main__":
    sys.exit(main())
