"""Differential test for patch_3 (icg_gym.py: the common tail of `step` / `unstep` is the new method
`_after_knowledge_change`; solvers/greedy.py: the extreme is picked by `min if worst else max`).

Run with cwd=/tmp/wt12/W03.  The ORIGINAL package is exported from git HEAD into a temporary directory; the same
workload is run in two separate interpreter processes (original / refactored) and the pickled records are compared
exactly (dtype, shape, bits with equal_nan, exception type and message, order of results).
"""
import os
import pickle
import subprocess
import sys
import tempfile

import numpy as np

WORKTREE = os.getcwd()


# --------------------------------------------------------------------------------------------------------------- worker
def _exc(fn):
    try:
        return ("ok", fn())
    except BaseException as e:  # noqa
        return ("exc", type(e).__name__, str(e))


def _result(r):
    """A step result with the observation copied."""
    return (np.array(r[0], copy=True),) + tuple(r[1:]) + (len(r), type(r).__name__)


class _NanGap:
    """A gap function that is NaN on some knowledge: exercises the comparison in the greedy solver."""

    def __init__(self, inner, modulus):
        self.inner, self.modulus = inner, modulus

    def __call__(self, game):
        if int(game.are_values_known().sum()) % self.modulus == 0:
            return np.float64("nan")
        return self.inner(game)


class _Truthy:
    """A `worst` flag that is not a bool and counts how often its truth value is taken."""

    def __init__(self, value):
        self.value, self.asked = value, 0

    def __bool__(self):
        self.asked += 1
        return self.value


def workload():
    import incomplete_cooperative.bounds as bounds
    from incomplete_cooperative.coalitions import Coalition
    from incomplete_cooperative.evaluation import eval_one
    from incomplete_cooperative.game import IncompleteCooperativeGame as Game
    from incomplete_cooperative.generators import GENERATORS
    from incomplete_cooperative.icg_gym import ICG_Gym
    from incomplete_cooperative.icg_gym_linear import ICG_Gym_Linear
    from incomplete_cooperative.run.model import GAP_FUNCTIONS, ModelInstance
    from incomplete_cooperative.solvers import SOLVERS
    from incomplete_cooperative.solvers.greedy import GreedySolver
    records = []
    cases = 0
    keys = ["superadditive", "superadditive_cached", "sam_apx_1", "sam_apx_10"]
    gens = ["factory", "noisy_factory_square", "xos", "graph_cycle", "xs"]
    gens = [g for g in gens if g in GENERATORS] or list(GENERATORS)[:3]
    records.append(("generators", gens, list(SOLVERS), list(GAP_FUNCTIONS)))

    def snapshot(env):
        game = env.incomplete_game
        return (game._values.copy(), env.steps_taken, env.state.copy(), env.reward, env.done,
                env.action_masks().copy())

    # --- random walks of step / unstep (valid and invalid moves) on the environment
    for seed in range(24):
        for n in [3, 4, 5]:
            for key in keys:
                if n == 5 and key == "sam_apx_10" and seed % 4:
                    continue
                for gap_name, gap in GAP_FUNCTIONS.items():
                    if n == 5 and gap_name != "exploitability" and seed % 3:
                        continue
                    rng = np.random.default_rng(100 * seed + n)
                    gen_name = gens[(seed + n) % len(gens)]

                    def gen():
                        return GENERATORS[gen_name](n, rng)
                    game = Game(n, bounds.BOUNDS[key])
                    size = 2**n
                    minimal = [Coalition(2**i) for i in range(n)]
                    extra = [Coalition(int(i)) for i in rng.integers(0, size, size=int(rng.integers(0, 3)))]
                    limit = [None, 2, 5, np.int64(3)][seed % 4]
                    made = _exc(lambda: ICG_Gym(game, gen, minimal + extra, gap, done_after_n_actions=limit))
                    rec = [("walk", seed, n, key, gap_name, gen_name, repr(limit), made[0])]
                    if made[0] != "ok":
                        rec.append(made)
                        records.append(rec)
                        continue
                    env = made[1]
                    rec.append(([c.id for c in env.explorable_coalitions], snapshot(env)))
                    history = []
                    for move in range(10):
                        kind = int(rng.integers(0, 6))
                        n_act = len(env.explorable_coalitions)
                        if kind <= 2:  # a random step, valid or not
                            a = int(rng.integers(0, n_act))
                            r = _exc(lambda: _result(env.step(a)))
                            if r[0] == "ok":
                                history.append(a)
                        elif kind == 3 and history:  # undo the most recent one
                            a = history.pop()
                            r = _exc(lambda: _result(env.unstep(a)))
                        elif kind == 4:  # undo something arbitrary (mostly not revealed: assertion)
                            a = int(rng.integers(0, n_act))
                            r = _exc(lambda: _result(env.unstep(a)))
                            if r[0] == "ok" and a in history:
                                history.remove(a)
                        else:  # out of range / numpy integer actions
                            a = [n_act, -1, np.int64(rng.integers(0, n_act)), -n_act - 1, 1.0][int(rng.integers(0, 5))]
                            r = _exc(lambda: _result(env.step(a)))
                            if r[0] == "ok":
                                history.append(int(a) % n_act)
                        rec.append((kind, repr(a), r, snapshot(env)))
                    rec.append(("reset", _exc(lambda: (env.reset()[0].copy(), snapshot(env)))))
                    records.append(rec)
                    cases += 1
    # --- the solvers (greedy: step + unstep probes), eval_one, linear wrapper, the model instance
    for seed in range(10):
        for n in [3, 4, 5]:
            for key in keys[:3] if n == 5 else keys:
                for gap_name in ["exploitability", "l1_norm", "nan"]:
                    if n == 5 and gap_name == "l1_norm":
                        continue
                    inst = ModelInstance(number_of_players=n, game_class=key, seed=seed,
                                         gap_function="exploitability" if gap_name == "nan" else gap_name,
                                         game_generator=gens[seed % len(gens)],
                                         run_steps_limit=min(4, 2**n - n - 2), linear=False)
                    for solver_name in SOLVERS:
                        if n == 5 and solver_name == "greedy_worst" and seed % 2:
                            continue
                        env = inst.get_env()
                        if gap_name == "nan":
                            env.gap_func = _NanGap(env.gap_func, 2 + seed % 3)
                        solver = SOLVERS[solver_name](inst)
                        r = _exc(lambda: eval_one(solver.next_step, env, inst.run_steps_limit, env.gap_func,
                                                  solver.after_reset))
                        records.append([("eval", seed, n, key, gap_name, solver_name), r, snapshot(env)])
                        cases += 1
            # odd `worst` flags, nothing left to choose, the linear wrapper
            inst = ModelInstance(number_of_players=n, game_class=keys[seed % 4], seed=seed, run_steps_limit=None)
            env = inst.get_env()
            env.reset()
            for flag in [_Truthy(True), _Truthy(False), 0, 1, "", "x", None]:
                solver = GreedySolver(inst, worst=flag)
                r = _exc(lambda: solver.next_step(env))
                records.append([("flag", seed, n, repr(getattr(flag, "value", flag))), r,
                                getattr(flag, "asked", None), snapshot(env)])
            while not env.done:
                env.step(int(np.flatnonzero(env.action_masks())[0]))
            for worst in [False, True]:
                records.append([("exhausted", seed, n, worst), _exc(lambda: GreedySolver(inst, worst).next_step(env)),
                                snapshot(env)])
            inst_lin = ModelInstance(number_of_players=n, game_class=keys[seed % 4], seed=seed, linear=True,
                                     run_steps_limit=3)
            lin = inst_lin.get_env()
            rec = [("linear", seed, n, isinstance(lin, ICG_Gym_Linear)), lin.reset()[0].copy()]
            for _ in range(3):
                size_action = int(np.flatnonzero(lin.action_masks())[0])
                rec.append(_exc(lambda: _result(lin.step(size_action))))
                rec.append(snapshot(lin.icg_gym))
            records.append(rec)
            cases += 1
    records.append(("cases", cases))
    return records


# --------------------------------------------------------------------------------------------------------------- driver
def same(a, b, path="root"):
    if type(a) is not type(b):
        return f"{path}: type {type(a).__name__} != {type(b).__name__} ({a!r} vs {b!r})"
    if isinstance(a, np.ndarray):
        if a.dtype != b.dtype or a.shape != b.shape:
            return f"{path}: dtype/shape {a.dtype}{a.shape} != {b.dtype}{b.shape}"
        if a.dtype.kind in "fc":
            ok = np.array_equal(a, b, equal_nan=True) and np.array_equal(np.signbit(a), np.signbit(b))
        else:
            ok = np.array_equal(a, b)
        return None if ok else f"{path}: arrays differ\n{a}\n{b}"
    if isinstance(a, (list, tuple)):
        if len(a) != len(b):
            return f"{path}: len {len(a)} != {len(b)}"
        for i, (x, y) in enumerate(zip(a, b)):
            r = same(x, y, f"{path}[{i}]")
            if r:
                return r
        return None
    if isinstance(a, dict):
        if list(a.keys()) != list(b.keys()):
            return f"{path}: keys {list(a)} != {list(b)}"
        for k in a:
            r = same(a[k], b[k], f"{path}[{k!r}]")
            if r:
                return r
        return None
    if isinstance(a, (float, np.floating)):
        ok = (a == b) or (a != a and b != b)
        return None if ok else f"{path}: {a!r} != {b!r}"
    return None if a == b else f"{path}: {a!r} != {b!r}"


def run_worker(root, out):
    env = dict(os.environ, OMP_NUM_THREADS="1", MKL_NUM_THREADS="1", PYTHONDONTWRITEBYTECODE="1", PYTHONHASHSEED="0")
    subprocess.run([sys.executable, os.path.abspath(__file__), "--worker", root, out], check=True, env=env, cwd=root)
    with open(out, "rb") as f:
        return pickle.load(f)


def main():
    if len(sys.argv) > 1 and sys.argv[1] == "--worker":
        sys.path.insert(0, sys.argv[2])
        import incomplete_cooperative
        assert os.path.dirname(os.path.dirname(os.path.abspath(incomplete_cooperative.__file__))) == \
            os.path.abspath(sys.argv[2]), incomplete_cooperative.__file__
        with open(sys.argv[3], "wb") as f:
            pickle.dump(workload(), f)
        return 0
    with tempfile.TemporaryDirectory(prefix="equiv_W03_") as tmp:
        orig_root = os.path.join(tmp, "orig")
        os.makedirs(orig_root)
        archive = subprocess.run(["git", "-C", WORKTREE, "archive", "HEAD", "incomplete_cooperative"],
                                 check=True, capture_output=True).stdout
        subprocess.run(["tar", "-x", "-C", orig_root], input=archive, check=True)
        res_orig = run_worker(orig_root, os.path.join(tmp, "orig.pkl"))
        res_new = run_worker(WORKTREE, os.path.join(tmp, "new.pkl"))
    if len(res_orig) != len(res_new):
        print("DIFFERENT: number of records", len(res_orig), len(res_new))
        return 1
    for i, (a, b) in enumerate(zip(res_orig, res_new)):
        r = same(a, b, f"record[{i}]")
        if r:
            print("DIFFERENT")
            print("first counterexample:", a[0] if isinstance(a, (list, tuple)) else a)
            print(r)
            return 1
    print(f"EQUIVALENT ({res_orig[-1][1]} cases, {len(res_orig)} records)")
    return 0


if __name__ == "__main__":
    sys.exit(main())
