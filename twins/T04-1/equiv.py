"""Differential test for refactoring 1 (bounds.py: helpers extracted from the cached bound computers).

Run with cwd=/tmp/wt9/T04:  OMP_NUM_THREADS=1 /venv/bin/python /tmp/twin_out/T04/equiv_1.py

The ORIGINAL package is taken from git (`git archive HEAD incomplete_cooperative`) into a temporary directory, the
REFACTORED one is the working tree.  The same deterministic list of cases is run in two fresh interpreters (one per
source tree, the wanted tree is put first on sys.path and the origin of the imported package is asserted), every
result is canonicalised down to bytes (dtype, shape, raw buffer; float.hex; type names) and the two lists are compared
for exact equality, case by case.
"""
import io
import os
import pickle
import subprocess
import sys
import tarfile
import tempfile

WORKTREE = os.getcwd()


# --------------------------------------------------------------------------------------------------------------------
# canonical form of results: bit-exact and type-exact
def canon(x):
    import numpy as np
    if isinstance(x, np.ndarray):
        if x.dtype == object:
            return ("ndo", x.shape, tuple(canon(y) for y in x.ravel().tolist()))
        return ("nd", x.dtype.str, x.shape, np.ascontiguousarray(x).tobytes())
    if isinstance(x, np.generic):
        return ("ns", x.dtype.str, x.tobytes())
    if isinstance(x, bool) or x is None or isinstance(x, (int, str, bytes)):
        return (type(x).__name__, x)
    if isinstance(x, float):
        return ("float", x.hex())
    if isinstance(x, (list, tuple)):
        return (type(x).__name__, tuple(canon(y) for y in x))
    if isinstance(x, dict):
        return ("dict", tuple((canon(k), canon(v)) for k, v in x.items()))
    if hasattr(x, "id") and type(x).__name__ == "Coalition":
        return ("Coalition", canon(x.id))
    return ("repr", type(x).__name__, repr(x))


def outcome(fn):
    """Run fn, give ('ok', canonical result) or ('exc', type, message)."""
    try:
        return ("ok", canon(fn()))
    except BaseException as e:  # noqa
        return ("exc", type(e).__name__, str(e))


# --------------------------------------------------------------------------------------------------------------------
def run_cases():
    import numpy as np

    from incomplete_cooperative.bounds import (
        BOUNDS, compute_bounds_superadditive_cached,
        compute_bounds_superadditive_monotone_approx_cached)
    from incomplete_cooperative.coalitions import (Coalition,
                                                   minimal_game_coalitions)
    from incomplete_cooperative.game import IncompleteCooperativeGame
    from incomplete_cooperative.generators import (additive,
                                                   covg_fn_generator,
                                                   factory_generator,
                                                   k_budget_generator, xos, xs)
    from functools import partial

    results = []

    def rec(name, fn):
        results.append((name, outcome(fn)))

    computers = dict(BOUNDS)
    computers["sam_apx_0"] = partial(compute_bounds_superadditive_monotone_approx_cached, repetitions=0)
    computers["sam_apx_2"] = partial(compute_bounds_superadditive_monotone_approx_cached, repetitions=2)
    computers["sam_apx_3"] = partial(compute_bounds_superadditive_monotone_approx_cached, repetitions=3)
    computers["sam_apx_neg"] = partial(compute_bounds_superadditive_monotone_approx_cached, repetitions=-1)

    def rand_values(n, rng):
        v = rng.normal(size=2**n) * 10
        v[0] = 0
        return v

    def nasty_values(n, rng):
        v = rng.integers(-3, 4, size=2**n).astype(float)
        idx = rng.integers(1, 2**n, size=3)
        v[idx[0]] = np.nan
        v[idx[1]] = np.inf
        v[idx[2]] = -np.inf
        v[0] = 0
        return v

    def full_values(kind, n, rng):
        if kind == "factory":
            return factory_generator(n, rng).get_values().copy()
        if kind == "noisy_factory":
            return factory_generator(n, rng, random_weights=True).get_values().copy()
        if kind == "xos":
            return xos(n, rng).get_values().copy()
        if kind == "xs":
            return xs(n, rng).get_values().copy()
        if kind == "covg":
            return covg_fn_generator(n, rng).get_values().copy()
        if kind == "k_budget":
            return k_budget_generator(n, rng).get_values().copy()
        if kind == "additive":
            return additive(n, rng).get_values().copy()
        if kind == "random":
            return rand_values(n, rng)
        if kind == "nasty":
            return nasty_values(n, rng)
        raise KeyError(kind)

    kinds = ["factory", "noisy_factory", "xos", "xs", "covg", "k_budget", "additive", "random", "nasty"]

    def snapshot(game):
        return game._values.copy()

    # ---- A: every registry entry, reveal / un-reveal sequences with recomputation, stale bounds kept in the table
    for name, computer in computers.items():
        slow = name in ("sam_apx_1000",)
        for n in ([3, 4] if slow else [3, 4, 5]):
            for kind in kinds:
                for seed in range(2 if slow else 4):
                    rng = np.random.default_rng([n, seed, kinds.index(kind)])
                    values = full_values(kind, n, rng)
                    game = IncompleteCooperativeGame(n, computer)
                    minimal = list(minimal_game_coalitions(n))
                    game.set_known_values(values[[c.id for c in minimal]], minimal)
                    tag = f"A/{name}/n{n}/{kind}/s{seed}"
                    rec(tag + "/init", lambda: (game.compute_bounds(), snapshot(game))[1])
                    rec(tag + "/again", lambda: (game.compute_bounds(), snapshot(game))[1])
                    unknown = [c for c in range(2**n) if not game.is_value_known(Coalition(c))]
                    order = rng.permutation(unknown)
                    revealed = []
                    for step, cid in enumerate(order[: (3 if slow else 6)]):
                        cid = int(cid)
                        game.reveal_value(values[cid], Coalition(cid))
                        revealed.append(cid)
                        rec(f"{tag}/reveal{step}", lambda: (game.compute_bounds(), snapshot(game))[1])
                        if step % 2 == 1:
                            back = revealed.pop(int(rng.integers(len(revealed))))
                            game.unreveal_value(Coalition(back))
                            rec(f"{tag}/unreveal{step}", lambda: (game.compute_bounds(), snapshot(game))[1])

    # ---- B: garbage already present in the bounds of the unknown coalitions (stale bounds), random known sets
    for name, computer in computers.items():
        if name == "sam_apx_1000":
            continue
        for n in [3, 4, 5]:
            for seed in range(6):
                rng = np.random.default_rng([77, n, seed])
                values = full_values(kinds[seed % len(kinds)], n, rng)
                game = IncompleteCooperativeGame(n, computer)
                known = {0, 2**n - 1} | {2**i for i in range(n)} | set(
                    int(x) for x in rng.choice(2**n, size=int(rng.integers(0, 2**n)), replace=False))
                known = sorted(known)
                game.set_known_values(values[known], [Coalition(c) for c in known])
                stale = rng.normal(size=(2**n, 2)) * 100
                unknown_mask = np.logical_not(game.are_values_known())
                game._values[unknown_mask, 1:3] = stale[unknown_mask]
                rec(f"B/{name}/n{n}/s{seed}", lambda: (game.compute_bounds(), snapshot(game))[1])

    # ---- C: preconditions violated: same exception, same state left behind
    for name, computer in computers.items():
        if name == "sam_apx_1000":
            continue
        for n in [3, 4]:
            for variant in ["no_grand", "no_singleton", "only_empty", "no_empty", "all_known"]:
                rng = np.random.default_rng([5, n])
                values = rand_values(n, rng)
                game = IncompleteCooperativeGame(n, computer)
                minimal = list(minimal_game_coalitions(n))
                game.set_known_values(values[[c.id for c in minimal]], minimal)
                if variant == "no_grand":
                    game.unset_value(Coalition(2**n - 1))
                elif variant == "no_singleton":
                    game.unset_value(Coalition(2))
                elif variant == "only_empty":
                    game.set_known_values([0], [Coalition(0)])
                elif variant == "no_empty":
                    game.unset_value(Coalition(0))
                elif variant == "all_known":
                    game.set_values(values)
                rec(f"C/{name}/n{n}/{variant}", lambda: game.compute_bounds())
                rec(f"C/{name}/n{n}/{variant}/state", lambda: snapshot(game))

    # ---- D: the sequence of calls made on the game object (names, arguments, results) is the same
    class Tracing:
        def __init__(self, game, log):
            object.__setattr__(self, "_g", game)
            object.__setattr__(self, "_log", log)

        def __getattr__(self, item):
            attr = getattr(self._g, item)
            if not callable(attr):
                self._log.append(("get", item, canon(attr)))
                return attr

            def wrapper(*a, **kw):
                r = attr(*a, **kw)
                self._log.append((item, canon(a), canon(kw), canon(r)))
                return r
            return wrapper

    for name, fn in [("superadditive_cached", compute_bounds_superadditive_cached),
                     ("sam_apx_0", computers["sam_apx_0"]), ("sam_apx_1", computers["sam_apx_1"]),
                     ("sam_apx_3", computers["sam_apx_3"]), ("superadditive", computers["superadditive"])]:
        for n in [3, 4]:
            for seed in range(5):
                rng = np.random.default_rng([9, n, seed])
                values = full_values(kinds[seed % len(kinds)], n, rng)
                game = IncompleteCooperativeGame(n)
                known = sorted({0, 2**n - 1} | {2**i for i in range(n)} | set(
                    int(x) for x in rng.choice(2**n, size=int(rng.integers(0, 2**n - 2)), replace=False)))
                game.set_known_values(values[known], [Coalition(c) for c in known])
                log = []
                rec(f"D/{name}/n{n}/s{seed}/run", lambda: fn(Tracing(game, log)))
                rec(f"D/{name}/n{n}/s{seed}/trace", lambda: log)
                rec(f"D/{name}/n{n}/s{seed}/state", lambda: snapshot(game))

    return results


# --------------------------------------------------------------------------------------------------------------------
def worker(root, out_path):
    sys.path.insert(0, root)
    import incomplete_cooperative
    origin = os.path.realpath(incomplete_cooperative.__file__)
    assert origin.startswith(os.path.realpath(root) + os.sep), (origin, root)
    results = run_cases()
    with open(out_path, "wb") as f:
        pickle.dump(results, f)


def main():
    with tempfile.TemporaryDirectory(prefix="equiv_T04_") as tmp:
        orig_root = os.path.join(tmp, "orig")
        os.makedirs(orig_root)
        archive = subprocess.run(["git", "-C", WORKTREE, "archive", "HEAD", "incomplete_cooperative"],
                                 check=True, capture_output=True).stdout
        tarfile.open(fileobj=io.BytesIO(archive)).extractall(orig_root)
        outs = {}
        env = dict(os.environ, OMP_NUM_THREADS="1", MKL_NUM_THREADS="1", PYTHONDONTWRITEBYTECODE="1",
                   PYTHONHASHSEED="0")
        for label, root in [("orig", orig_root), ("new", WORKTREE)]:
            out_path = os.path.join(tmp, label + ".pkl")
            subprocess.run([sys.executable, os.path.abspath(__file__), "--worker", root, out_path],
                           check=True, cwd=tmp, env=env)
            with open(out_path, "rb") as f:
                outs[label] = pickle.load(f)
    orig, new = outs["orig"], outs["new"]
    n_exc = sum(1 for _, o in orig if o[0] == "exc")
    if len(orig) != len(new):
        print("DIFFERENT: number of cases", len(orig), len(new))
        return 1
    for (name_o, res_o), (name_n, res_n) in zip(orig, new):
        if name_o != name_n or res_o != res_n:
            print("DIFFERENT")
            print("case:", name_o, name_n)
            print("original  :", repr(res_o)[:2000])
            print("refactored:", repr(res_n)[:2000])
            return 1
    print(f"{len(orig)} cases compared ({n_exc} of them raise), all bit-identical")
    print("EQUIVALENT")
    return 0


if __name__ == "__main__":
    if len(sys.argv) > 1 and sys.argv[1] == "--worker":
        worker(sys.argv[2], sys.argv[3])
    else:
        sys.exit(main())
