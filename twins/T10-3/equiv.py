"""Differential test: original (git HEAD) run/save.py against the refactored one in the worktree.

Run with cwd=/tmp/wt9/T10:  OMP_NUM_THREADS=1 /venv/bin/python /tmp/twin_out/T10/equiv_3.py
Every scenario (state of the results directory before the call, the call, the point of the simulated crash) is executed
with both implementations in fresh temporary directories.  All file-system relevant calls (Path.exists / mkdir / open /
read_text / with_name, every write() on files opened for writing, json.dump / load / loads, os.replace) are traced and the
k-th of them is turned into a crash (BaseException raised before or after the real operation, half-written chunk for
write()).  Compared exactly: the trace of calls with arguments, the return value or exception, and the bytes of every file
left in the directory.
"""
from __future__ import annotations

import atexit
import importlib
import io
import json
import os
import pathlib
import shutil
import subprocess
import sys
import tarfile
import tempfile
from argparse import Namespace
from pathlib import Path

os.environ.setdefault("MPLBACKEND", "Agg")
import numpy as np  # noqa: E402

WORKTREE = Path.cwd()
ALIAS = "icg_orig"


def load_original():
    """Write the HEAD version of the package to a temp dir under another package name and import it."""
    tmp = Path(tempfile.mkdtemp(prefix="icg_orig_"))
    tar_bytes = subprocess.run(["git", "-C", str(WORKTREE), "archive", "HEAD", "incomplete_cooperative"],
                               capture_output=True, check=True).stdout
    with tarfile.open(fileobj=io.BytesIO(tar_bytes)) as tar:
        tar.extractall(tmp)
    (tmp / "incomplete_cooperative").rename(tmp / ALIAS)
    for py in (tmp / ALIAS).rglob("*.py"):
        py.write_text(py.read_text().replace("incomplete_cooperative", ALIAS))
    sys.path.insert(0, str(tmp))
    atexit.register(shutil.rmtree, str(tmp), True)
    return tmp


ORIG_DIR = load_original()
sys.path.insert(0, str(WORKTREE))
orig_save = importlib.import_module(ALIAS + ".run.save")
new_save = importlib.import_module("incomplete_cooperative.run.save")
assert Path(orig_save.__file__).resolve() != Path(new_save.__file__).resolve()
assert str(WORKTREE) in str(Path(new_save.__file__).resolve())
assert str(ORIG_DIR) in str(Path(orig_save.__file__).resolve())


class Crash(BaseException):
    """The simulated death of the process (not an Exception: nothing in the package may swallow it)."""


class Tracer:
    """Trace the file-system relevant calls and crash at the chosen one."""

    def __init__(self, root: Path, crash_at: int | None, crash_after: bool):
        self.root = str(root)
        self.crash_at = crash_at
        self.crash_after = crash_after
        self.events: list = []
        self.active = False
        self._in_hook = 0

    def show(self, x):
        if isinstance(x, (str, pathlib.PurePath)):
            return str(x).replace(self.root, "<ROOT>")
        if isinstance(x, (int, float, bool, type(None))):
            return x
        if isinstance(x, (dict, list)):
            try:
                return json.dumps(x, sort_keys=False, default=repr).replace(self.root, "<ROOT>")
            except Exception:  # noqa
                return type(x).__name__
        if callable(x):
            return getattr(x, "__name__", type(x).__name__)
        return type(x).__name__

    def foreign(self, args):
        """Calls on paths outside the scenario directory (matplotlib caches, fonts) are not part of the comparison."""
        return bool(args) and isinstance(args[0], pathlib.PurePath) and self.root not in str(args[0])

    def event(self, name, *args):
        """Register an event; return True when it is the crashing one."""
        self.events.append((name,) + tuple(self.show(a) for a in args))
        return self.crash_at is not None and len(self.events) - 1 == self.crash_at

    def wrap(self, name, real, show_args=True):
        tracer = self

        def hook(*args, **kwargs):
            if not tracer.active or tracer._in_hook or tracer.foreign(args):
                return real(*args, **kwargs)
            crash = tracer.event(name, *(args if show_args else args[:1]), *sorted(kwargs))
            if crash and not tracer.crash_after:
                raise Crash(name)
            tracer._in_hook += 1
            try:
                result = real(*args, **kwargs)
            finally:
                tracer._in_hook -= 1
            if crash:
                raise Crash(name)
            return result
        return hook


class WriteProxy:
    """A file opened for writing whose write() calls are events (a crash leaves half of the chunk written)."""

    def __init__(self, real, tracer: Tracer):
        self._real = real
        self._tracer = tracer

    def write(self, chunk):
        tracer = self._tracer
        if not tracer.active:
            return self._real.write(chunk)
        crash = tracer.event("write", chunk)
        if crash:
            if tracer.crash_after:
                self._real.write(chunk)
            else:
                self._real.write(chunk[:len(chunk) // 2])
            self._real.flush()
            raise Crash("write")
        return self._real.write(chunk)

    def __enter__(self):
        self._real.__enter__()
        return self

    def __exit__(self, *exc):
        return self._real.__exit__(*exc)

    def __getattr__(self, name):
        return getattr(self._real, name)


PATCHED = [(os, "replace"), (json, "dump"), (json, "load"), (json, "loads"), (pathlib.Path, "exists"),
           (pathlib.Path, "mkdir"), (pathlib.Path, "read_text"), (pathlib.Path, "with_name"),
           (pathlib.Path, "write_text"), (os, "rename"), (os, "remove"), (os, "unlink"), (shutil, "move")]


def traced_call(root: Path, crash_at, crash_after, func):
    """Run func() with the tracer installed; return (events, outcome)."""
    tracer = Tracer(root, crash_at, crash_after)
    saved = [(obj, name, getattr(obj, name)) for obj, name in PATCHED]
    real_open = pathlib.Path.open

    def open_hook(self, mode="r", *args, **kwargs):
        if not tracer.active or tracer._in_hook or tracer.foreign((self,)):
            return real_open(self, mode, *args, **kwargs)
        crash = tracer.event("open", self, mode)
        if crash and not tracer.crash_after:
            raise Crash("open")
        tracer._in_hook += 1
        try:
            f = real_open(self, mode, *args, **kwargs)
        finally:
            tracer._in_hook -= 1
        if crash:
            f.close()
            raise Crash("open")
        if "w" in mode or "a" in mode or "+" in mode:
            return WriteProxy(f, tracer)
        return f

    try:
        for obj, name, real in saved:
            setattr(obj, name, tracer.wrap(name, real, show_args=name not in ("dump",)))
        # json.dump has to run its body "outside" the hook so that the writes on the proxy are seen as events
        real_dump = saved[1][2]

        def dump_hook(obj, fp, **kwargs):
            if not tracer.active or tracer._in_hook:
                return real_dump(obj, fp, **kwargs)
            crash = tracer.event("dump", obj, type(fp).__name__, *sorted(kwargs), kwargs.get("default"))
            if crash and not tracer.crash_after:
                raise Crash("dump")
            result = real_dump(obj, fp, **kwargs)
            if crash:
                raise Crash("dump")
            return result
        json.dump = dump_hook
        pathlib.Path.open = open_hook
        tracer.active = True
        try:
            outcome = ("ok", repr(func()))
        except Crash as e:
            outcome = ("crash", str(e))
        except Exception as e:  # noqa
            outcome = ("exc", type(e).__name__, str(e).replace(str(root), "<ROOT>"))
        finally:
            tracer.active = False
    finally:
        for obj, name, real in saved:
            setattr(obj, name, real)
        pathlib.Path.open = real_open
    return tracer.events, outcome


def snapshot(root: Path):
    out = {}
    for p in sorted(root.rglob("*")):
        rel = str(p.relative_to(root))
        out[rel] = p.read_bytes() if p.is_file() else "<dir>"
    return out


# ---------------------------------------------------------------------------------------------------------------------
def eval_func():  # "eval" in repr -> run_type eval
    """Stand-in for the run function."""


def learn_func():
    """Stand-in for the run function."""


class Odd:
    def __repr__(self):
        return "Odd<1>"


def make_output(mod, rng, steps=None, reps=None):
    steps = int(rng.integers(1, 4)) if steps is None else steps
    reps = int(rng.integers(1, 4)) if reps is None else reps
    data = rng.normal(size=(steps, reps))
    if rng.integers(0, 4) == 0:
        data[0, 0] = np.inf
    actions = rng.integers(3, 16, size=(steps, reps)).astype(float)
    if rng.integers(0, 3) == 0:
        actions[-1, 0] = np.nan
    args = Namespace(func=eval_func if rng.integers(0, 2) else learn_func, number_of_players=4,
                     model_path=Path("/some/where/model"), odd=Odd(), seed=int(rng.integers(0, 100)),
                     name="x" * int(rng.integers(0, 5)), nested={"a": [1, 2, {"b": None}]}, flag=True, ratio=0.25)
    return mod.Output(data, actions, args)


def previous_runs(rng, k):
    return {f"run{j}": {"data": rng.normal(size=(2, 2)).tolist(), "actions": [[3.0, 5.0], [6.0, 7.0]],
                        "metadata": {"run_type": "eval", "seed": j}} for j in range(k)}


INITIAL_KINDS = ["absent", "nodir", "empty_dict", "one", "three", "has_name", "truncated", "json_list", "json_number",
                 "stale_tmp", "stale_tmp_and_three", "is_dir", "empty_file", "has_name_and_plots"]


def prepare(root: Path, kind: str, rng, name: str, via_save: bool):
    """Create the state of the results location before the call; return the path argument."""
    model_dir = root / "model_dir"
    if kind != "nodir":
        model_dir.mkdir(parents=True)
    data_path = model_dir / "data.json"
    if kind in ("absent", "nodir"):
        pass
    elif kind == "empty_dict":
        data_path.write_text("{}")
    elif kind == "one":
        data_path.write_text(json.dumps(previous_runs(rng, 1)))
    elif kind in ("three", "stale_tmp_and_three"):
        data_path.write_text(json.dumps(previous_runs(rng, 3), indent=1))
    elif kind in ("has_name", "has_name_and_plots"):
        runs = previous_runs(rng, 2)
        runs[name] = {"data": [[1.0]], "actions": [[3.0]], "metadata": {"run_type": "learn"}}
        data_path.write_text(json.dumps(runs))
        if kind == "has_name_and_plots":
            (model_dir / "data_plots").mkdir()
            (model_dir / "data_plots" / (name + ".png")).write_bytes(b"old")
    elif kind == "truncated":
        data_path.write_text(json.dumps(previous_runs(rng, 2))[:-7])
    elif kind == "json_list":
        data_path.write_text("[1, 2]")
    elif kind == "json_number":
        data_path.write_text("3")
    elif kind == "is_dir":
        data_path.mkdir()
    elif kind == "empty_file":
        data_path.write_text("")
    if kind in ("stale_tmp", "stale_tmp_and_three"):
        (model_dir / "data.json.tmp").write_text("{\"half")
    return model_dir if via_save else data_path


def stub_savers(mod, fail_plot: bool):
    def plot_stub(path, unique_name, output):
        if fail_plot:
            raise RuntimeError("cannot draw")
        path.mkdir(parents=True, exist_ok=True)
        (path / (unique_name + ".png")).write_bytes(b"png")
    return {"data.json": mod.save_json, "data_plots": plot_stub, "chosen_coalitions": plot_stub}


def run_scenario(mod, scenario, crash_at, crash_after):
    kind, how, name, seed, calls = scenario
    root = Path(tempfile.mkdtemp(prefix="equiv3_"))
    try:
        rng = np.random.default_rng(seed)
        via_save = how != "save_json"
        target = prepare(root, kind, rng, name, via_save)
        outputs = [make_output(mod, rng, steps=2 if how == "save_real" else None, reps=2 if how == "save_real" else None)
                   for _ in range(calls)]
        names = [name] + [f"{name}.{j}" for j in range(1, calls)]
        real_savers = mod.SAVERS
        if how in ("save_stub", "save_stub_fail"):
            mod.SAVERS = stub_savers(mod, how == "save_stub_fail")

        def body():
            results = []
            for out_name, output in zip(names, outputs):
                if via_save:
                    results.append(mod.save(target, out_name, output))
                else:
                    results.append(mod.save_json(target, out_name, output))
            return results
        try:
            events, outcome = traced_call(root, crash_at, crash_after, body)
        finally:
            mod.SAVERS = real_savers
        files = snapshot(root)
        return events, outcome, files
    finally:
        shutil.rmtree(root, ignore_errors=True)


def check_property(scenario, files, outcome):
    """Not needed for equivalence, but record whether the results file stayed a complete old or new file."""
    data = files.get("model_dir/data.json")
    if not isinstance(data, bytes):
        return "nofile"
    try:
        return sorted(json.loads(data)) if isinstance(json.loads(data), dict) else "nondict"
    except ValueError:
        return "unparsable"


def compare(scenario, crash_at, crash_after):
    a = run_scenario(orig_save, scenario, crash_at, crash_after)
    b = run_scenario(new_save, scenario, crash_at, crash_after)
    for label, x, y in zip(("events", "outcome", "files"), a, b):
        if x != y:
            print("DIFFERENT")
            print("scenario", scenario, "crash_at", crash_at, "after", crash_after, "differs in", label)
            if label == "events":
                for i, (e, f) in enumerate(zip(x, y)):
                    if e != f:
                        print(" first differing event", i, e, f)
                        break
                else:
                    print(" lengths", len(x), len(y), x[len(y):][:3], y[len(x):][:3])
            elif label == "files":
                print(" ", {k: (x.get(k), y.get(k)) for k in set(x) | set(y) if x.get(k) != y.get(k)})
            else:
                print(" ", x, y)
            sys.exit(1)
    return a


def call(func, *args):
    try:
        return ("ok", repr(func(*args)))
    except Exception as e:  # noqa
        return ("exc", type(e).__name__, str(e))


def other_functions(rng):
    """The remaining public functions of the module on random data."""
    n = 0
    for _ in range(100):
        o_out, n_out = (make_output(m, np.random.default_rng(1000 + _)) for m in (orig_save, new_save))
        for attr in ("data_avg_final", "avg_data", "metadata", "data_list", "actions_list", "json"):
            x, y = getattr(o_out, attr), getattr(n_out, attr)
            if repr(x) != repr(y):
                print("DIFFERENT", attr, x, y)
                sys.exit(1)
        x, y = call(orig_save.approx_game, o_out.actions), call(new_save.approx_game, n_out.actions)
        if x != y:
            print("DIFFERENT approx_game", x, y)
            sys.exit(1)
        if x[0] == "ok":
            gx, gy = orig_save.approx_game(o_out.actions), new_save.approx_game(n_out.actions)
            for t in range(o_out.actions.shape[0]):
                dx = call(orig_save.get_coalition_distribution, gx[0], o_out.actions[t], gx[2])
                dy = call(new_save.get_coalition_distribution, gy[0], n_out.actions[t], gy[2])
                if dx != dy:
                    print("DIFFERENT get_coalition_distribution", dx, dy)
                    sys.exit(1)
        for obj in (Path("/a/b"), Odd(), 3, None, "s", eval_func.__name__):
            if orig_save.json_serializer(obj) != new_save.json_serializer(obj):
                print("DIFFERENT json_serializer", obj)
                sys.exit(1)
        n += 1
    # round trip through the files written by either implementation
    for m_write, m_read in ((orig_save, new_save), (new_save, orig_save), (new_save, new_save), (orig_save, orig_save)):
        root = Path(tempfile.mkdtemp(prefix="equiv3_"))
        out = make_output(m_write, np.random.default_rng(5))
        m_write.save_json(root / "data.json", "a.b", out)
        m_write.save_json(root / "data.json", "c", make_output(m_write, np.random.default_rng(6)))
        got = m_read.get_outputs_from_file(root / "data.json")
        one = m_read.Output.from_file(root / "data.json", "a.b")
        reprs = (sorted(got), repr(one.data.tolist()), repr(one.actions.tolist()), repr(sorted(vars(one.parsed_args).items())),
                 (root / "data.json").read_bytes())
        shutil.rmtree(root)
        if m_write is orig_save and m_read is new_save:
            first = reprs
        elif reprs != first:
            print("DIFFERENT round trip")
            sys.exit(1)
    if list(orig_save.SAVERS) != list(new_save.SAVERS) or \
            [f.__name__ for f in orig_save.SAVERS.values()] != [f.__name__ for f in new_save.SAVERS.values()]:
        print("DIFFERENT SAVERS", list(orig_save.SAVERS), list(new_save.SAVERS))
        sys.exit(1)
    return n


def main():
    rng = np.random.default_rng(2024)
    scenarios = []
    seed = 0
    for kind in INITIAL_KINDS:
        for how in ("save_json", "save_stub", "save_stub_fail"):
            for calls in (1, 2):
                seed += 1
                name = "run_x" if kind.startswith("has_name") else ["new", "2024-01-01T10.11.12"][seed % 2]
                scenarios.append((kind, how, name, seed, calls))
    for kind in ("absent", "three", "has_name", "stale_tmp", "truncated", "nodir"):
        seed += 1
        scenarios.append((kind, "save_real", "real.run", seed, 1))
    n_cases = 0
    n_crashes = 0
    verdicts: dict = {}
    import time
    t0 = time.time()
    for scenario in scenarios:
        if os.environ.get("EQUIV_VERBOSE"):
            print(f"{time.time() - t0:7.1f}s {n_cases:6d}", scenario, file=sys.stderr)
        events, outcome, files = compare(scenario, None, False)
        n_cases += 1
        n_events = len(events)
        if scenario[1] == "save_real":
            points = sorted(set(range(0, n_events, max(1, n_events // 12))))
        elif n_events > 40:
            points = sorted(set(list(range(20)) + list(range(20, n_events - 10, 5)) + list(range(n_events - 10, n_events))))
        else:
            points = list(range(n_events))
        for crash_at in points:
            for crash_after in (False, True):
                ev, oc, fl = compare(scenario, crash_at, crash_after)
                n_cases += 1
                n_crashes += oc[0] == "crash"
                v = check_property(scenario, fl, oc)
                verdicts[str(v) if isinstance(v, str) else "parses"] = verdicts.get(str(v) if isinstance(v, str) else "parses", 0) + 1
    n_other = other_functions(rng)
    print(f"{len(scenarios)} scenarios, {n_cases} executions compared ({n_crashes} with a simulated crash), "
          f"{n_other} outputs through the other functions; results file after the call: {verdicts}")
    print("EQUIVALENT")


if __name__ == "__main__":
    main()
