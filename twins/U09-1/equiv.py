"""Differential test for refactoring 1 (normalize.py: nested index loops -> itertools.combinations_with_replacement).

Run with cwd=/tmp/wt10/U09.  The ORIGINAL package is extracted from git HEAD into a temporary directory; the same worker
code is run in two sub-processes (PYTHONPATH = original tree / refactored worktree), the pickled results are compared exactly.
"""
import os
import pickle
import subprocess
import sys
import tempfile

import numpy as np

WORKTREE = os.getcwd()


# --------------------------------------------------------------------------------------------------------- worker
def _exc(e):
    return ("EXC", type(e).__name__, str(e))


def worker(root, out_path):
    sys.path.insert(0, root)
    import incomplete_cooperative
    assert os.path.realpath(incomplete_cooperative.__file__).startswith(os.path.realpath(root)), incomplete_cooperative.__file__
    from incomplete_cooperative import generators
    from incomplete_cooperative.bounds import BOUNDS
    from incomplete_cooperative.coalitions import (all_coalitions,
                                                   minimal_game_coalitions)
    from incomplete_cooperative.game import IncompleteCooperativeGame
    from incomplete_cooperative.generators import GENERATORS
    from incomplete_cooperative.graph_game import GraphCooperativeGame
    from incomplete_cooperative.icg_gym import ICG_Gym
    from incomplete_cooperative.norms import lp_norm
    from incomplete_cooperative.normalize import (_normalize_graph_game,
                                                  denormalize_game,
                                                  normalize_game)

    results = []

    def snapshot(game):
        if isinstance(game, GraphCooperativeGame):
            return ("graph", game.number_of_players, game._graph_matrix.copy(), game.get_values())
        return ("icg", game.number_of_players, game._values.copy())

    def roundtrip(label, game):
        try:
            before = snapshot(game)
            info = normalize_game(game)
            mid = snapshot(game)
            denormalize_game(game, info)
            after = snapshot(game)
            results.append((label, (before, info, mid, after)))
        except Exception as e:  # noqa
            results.append((label, _exc(e)))

    # 1. every registry entry, several sizes and seeds; the graph game and its tabulated form
    for name in sorted(GENERATORS):
        if name == "convex":  # needs pyfmtools, which is not installed
            continue
        for n in (2, 3, 4, 5, 6):
            for seed in (0, 1, 2):
                generators._gen.bit_generator.state = np.random.default_rng(1000 * seed + n).bit_generator.state
                generators._LAST_OWNER = 0
                rng = np.random.default_rng(seed)
                try:
                    game = GENERATORS[name](n, rng)
                except Exception as e:  # noqa
                    results.append((f"gen {name} {n} {seed}", _exc(e)))
                    continue
                roundtrip(f"gen {name} {n} {seed}", game.copy())
                if isinstance(game, GraphCooperativeGame):
                    tab = IncompleteCooperativeGame(n)
                    tab.set_values(game.get_values())
                    roundtrip(f"tab {name} {n} {seed}", tab)
                    # direct call of the touched helper, also on the negated game
                    for sign, g in (("+", game.copy()), ("-", -game)):
                        try:
                            r = _normalize_graph_game(g)
                            results.append((f"direct {sign} {name} {n} {seed}", (r, snapshot(g))))
                        except Exception as e:  # noqa
                            results.append((f"direct {sign} {name} {n} {seed}", _exc(e)))

    # 2. hand-made matrices: zero, negative, nan / inf, integer input, one / zero players, non-square
    rng = np.random.default_rng(7)
    special = {
        "zeros3": np.zeros((3, 3)), "ones4": np.ones((4, 4)), "neg": -np.ones((3, 3)),
        "nan": np.array([[0, np.nan, 1], [2, 0, 3], [4, 5, 0.]]), "inf": np.array([[0, np.inf], [1, 0.]]),
        "cancel": np.array([[0, 1, -1], [0, 0, 0], [0, 0, 0.]]),
        "int": np.arange(16).reshape(4, 4), "one": np.array([[5.]]), "empty": np.zeros((0, 0)),
        "wide": np.arange(8.).reshape(2, 4), "tall": np.arange(8.).reshape(4, 2),
        "tiny": np.full((3, 3), 5e-324), "huge": np.full((3, 3), 1e308),
    }
    for i in range(150):
        n = int(rng.integers(1, 8))
        kind = i % 3
        m = rng.random((n, n)) if kind == 0 else rng.normal(size=(n, n)) if kind == 1 else rng.integers(-3, 4, (n, n))
        special[f"rand{i}"] = m
    for key, matrix in special.items():
        try:
            game = GraphCooperativeGame(matrix)
        except Exception as e:  # noqa
            results.append((f"special {key}", _exc(e)))
            continue
        roundtrip(f"special {key}", game.copy())
        # the helper is also reachable with a lower triangle that has been filled in behind the constructor's back
        dirty = game.copy()
        dirty._graph_matrix[:] = np.array(matrix, dtype=dirty._graph_matrix.dtype)[:dirty._graph_matrix.shape[0],
                                                                                   :dirty._graph_matrix.shape[1]]
        roundtrip(f"special dirty {key}", dirty)

    # 3. through the environment (reset normalises a copy of the generated graph game)
    for name in ("graph", "graph_cycle", "graph_random", "graph_beta_2_3", "graph_poiss_1", "graph_internet"):
        for n in (3, 4, 5):
            for seed in (0, 1):
                generators._gen.bit_generator.state = np.random.default_rng(77 * seed + n).bit_generator.state
                rng = np.random.default_rng(seed)
                try:
                    ig = IncompleteCooperativeGame(n, BOUNDS["superadditive"])
                    env = ICG_Gym(ig, lambda: GENERATORS[name](n, rng), minimal_game_coalitions(ig), lp_norm)
                    trace = [env.reset()[0], snapshot(env.normalized_game), snapshot(env.full_game)]
                    for action in np.random.default_rng(seed).permutation(len(env.explorable_coalitions)):
                        s, r, d, t, info = env.step(int(action))
                        trace.append((s, r, d, t, info))
                    results.append((f"env {name} {n} {seed}", trace))
                except Exception as e:  # noqa
                    results.append((f"env {name} {n} {seed}", _exc(e)))

    with open(out_path, "wb") as f:
        pickle.dump(results, f)


# --------------------------------------------------------------------------------------------------------- driver
def same(a, b):
    if type(a) is not type(b):
        return False
    if isinstance(a, np.ndarray):
        if a.dtype != b.dtype or a.shape != b.shape:
            return False
        if a.dtype.kind in "fc":
            return bool(np.array_equal(a, b, equal_nan=True)) and bool(np.array_equal(np.signbit(a), np.signbit(b)))
        return bool(np.array_equal(a, b))
    if isinstance(a, (tuple, list)):
        return len(a) == len(b) and all(same(x, y) for x, y in zip(a, b))
    if isinstance(a, dict):
        return a.keys() == b.keys() and all(same(a[k], b[k]) for k in a)
    if isinstance(a, (float, np.floating)):
        return (a == b or (np.isnan(a) and np.isnan(b))) and np.signbit(a) == np.signbit(b)
    if hasattr(a, "_graph_matrix"):
        return same(a._graph_matrix, b._graph_matrix)
    if hasattr(a, "_values"):
        return same(a._values, b._values)
    return a == b


def main():
    with tempfile.TemporaryDirectory() as tmp:
        orig = os.path.join(tmp, "orig")
        os.makedirs(orig)
        archive = subprocess.run(["git", "-C", WORKTREE, "archive", "HEAD", "incomplete_cooperative"],
                                 check=True, capture_output=True).stdout
        subprocess.run(["tar", "-x", "-C", orig], input=archive, check=True)
        outs = []
        for tag, root in (("orig", orig), ("new", WORKTREE)):
            out = os.path.join(tmp, tag + ".pkl")
            env = dict(os.environ, OMP_NUM_THREADS="1", MKL_NUM_THREADS="1", PYTHONPATH=root, PYTHONHASHSEED="0",
                       PYTHONDONTWRITEBYTECODE="1")
            subprocess.run([sys.executable, os.path.abspath(__file__), "--worker", root, out], check=True, env=env, cwd=root)
            sys.path.insert(0, root)  # only needed to unpickle game objects in info dicts
            with open(out, "rb") as f:
                outs.append(pickle.load(f))
            sys.path.pop(0)
            for mod in [m for m in sys.modules if m.startswith("incomplete_cooperative")]:
                del sys.modules[mod]
    a, b = outs
    if len(a) != len(b):
        print("DIFFERENT: number of cases", len(a), len(b))
        return 1
    n_exc = 0
    for (la, ra), (lb, rb) in zip(a, b):
        if la != lb or not same(ra, rb):
            print("DIFFERENT at case", la, lb)
            print(" original  :", ra)
            print(" refactored:", rb)
            return 1
        n_exc += isinstance(ra, tuple) and len(ra) == 3 and ra[0] == "EXC"
    print(f"{len(a)} cases compared ({n_exc} of them identical exceptions)")
    print("EQUIVALENT")
    return 0


if __name__ == "__main__":
    if len(sys.argv) > 1 and sys.argv[1] == "--worker":
        worker(sys.argv[2], sys.argv[3])
    else:
        sys.exit(main())
