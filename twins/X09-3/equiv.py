#!/usr/bin/env python
"""Differential equivalence check for patch_3 (incomplete_cooperative/run/save.py, incomplete_cooperative/run/greedy.py).

Runs the same deterministic workload against the ORIGINAL sources (git archive HEAD) and against the current
worktree (patch applied), each in its own interpreter, and compares the canonicalised outcomes exactly.
Exit status 0 iff everything is identical.
"""
import os
import pickle
import struct
import subprocess
import sys
import tempfile

WORKTREE = "/tmp/wt_x4_X09"


# --------------------------------------------------------------------------------------------------------------------
# canonical form of outcomes: nested tuples of tagged primitives / raw bytes (NaN-safe, dtype- and shape-exact)
# --------------------------------------------------------------------------------------------------------------------
def canon(x):
    import numpy as np
    from argparse import Namespace
    from pathlib import PurePath
    if x is None or type(x) in (str, bytes):
        return x
    if isinstance(x, (str, bytes)):
        return ("sub", type(x).__name__, str(x) if isinstance(x, str) else bytes(x))
    if isinstance(x, bool):
        return ("bool", int(x))
    if isinstance(x, np.ndarray):
        if x.dtype == object:
            return ("ndo", x.shape, tuple(canon(y) for y in x.ravel().tolist()))
        return ("nd", x.dtype.str, x.shape, np.ascontiguousarray(x).tobytes())
    if isinstance(x, np.generic):
        return ("npscalar", x.dtype.str, x.tobytes())
    if isinstance(x, int):
        return ("int", type(x).__name__, int(x))
    if isinstance(x, float):
        return ("float", struct.pack("<d", x))
    if isinstance(x, (list, tuple)):
        return (type(x).__name__, tuple(canon(y) for y in x))
    if isinstance(x, dict):
        return ("dict", tuple((canon(k), canon(v)) for k, v in x.items()))
    if isinstance(x, (set, frozenset)):
        return ("set", tuple(sorted(repr(canon(y)) for y in x)))
    if isinstance(x, PurePath):
        return ("path", str(x))
    if isinstance(x, Namespace):
        return ("ns", canon(vars(x)))
    if isinstance(x, BaseException):
        return ("exc", type(x).__name__, str(x))
    cls = type(x).__name__
    if hasattr(x, "_values") and hasattr(x, "number_of_players"):
        return ("game", cls, x.number_of_players, canon(x._values))
    if hasattr(x, "_graph_matrix"):
        return ("graphgame", cls, x.number_of_players, canon(x._graph_matrix))
    if cls == "Coalition":
        return ("coalition", x.id)
    return ("obj", cls)


def attempt(fn, *args, **kwargs):
    """Call and canonicalise result or exception."""
    try:
        return ("ok", canon(fn(*args, **kwargs)))
    except BaseException as e:  # noqa
        return canon(e)


# --------------------------------------------------------------------------------------------------------------------
# the workload (runs in a subprocess with PYTHONPATH pointing to one of the two trees)
# --------------------------------------------------------------------------------------------------------------------
def driver(out_path, expected_root):
    import hashlib
    import json
    import warnings
    warnings.filterwarnings("ignore")
    from argparse import ArgumentParser, Namespace
    from functools import partial
    from pathlib import Path, PurePosixPath, PureWindowsPath

    import numpy as np

    import incomplete_cooperative
    assert os.path.realpath(incomplete_cooperative.__file__).startswith(os.path.realpath(expected_root)), \
        (incomplete_cooperative.__file__, expected_root)
    from incomplete_cooperative import generators as G
    from incomplete_cooperative.run import greedy as GR
    from incomplete_cooperative.run import save as S
    from incomplete_cooperative.run.best_states import (add_best_states_parser,
                                                        best_states_func)
    from incomplete_cooperative.run.greedy import add_greedy_parser
    from incomplete_cooperative.run.model import (ModelInstance,
                                                  add_model_arguments)
    from incomplete_cooperative.run.save import (SAVERS, Output,
                                                 get_outputs,
                                                 get_outputs_from_file,
                                                 json_serializer, save,
                                                 save_data_plot,
                                                 save_draw_coalitions,
                                                 save_json)
    from incomplete_cooperative.run.solve import add_solve_parser

    G._gen.bit_generator.state = np.random.default_rng(20240229).bit_generator.state

    results = []
    import time
    clock = [time.time()]

    def lap(section):
        now = time.time()
        print(f"   section {section}: {now - clock[0]:.1f}s, {len(results)} outcomes so far", file=sys.stderr)
        clock[0] = now

    def rec(tag, value):
        results.append((tag, value))

    def tree(root):
        """The files below `root` (relative names) with the hash of their contents, directories included."""
        out = []
        root = Path(root)
        if not root.exists():
            return ("missing",)
        for p in sorted(root.rglob("*")):
            rel = str(p.relative_to(root))
            out.append((rel, "dir") if p.is_dir() else (rel, hashlib.sha256(p.read_bytes()).hexdigest()))
        return tuple(out)

    def output_canon(o):
        return ("Output", canon(o.data), canon(o.actions), canon(o.parsed_args))

    rec("names", tuple((n, hasattr(S, n)) for n in (
        "Output", "get_outputs_from_file", "get_outputs", "_file_stem", "save_data_plot", "get_coalition_distribution2",
        "get_coalition_distribution", "approx_game", "save_draw_coalitions", "save_json", "json_serializer", "SAVERS",
        "save", "json", "os", "sys", "Namespace", "dataclass", "Path", "Any", "plt", "np", "Coalition",
        "minimal_game_coalitions", "Player", "Value", "ModelInstance")))
    rec("savers", tuple((k, v.__name__) for k, v in SAVERS.items()))
    rec("greedy-names", tuple((n, hasattr(GR, n)) for n in (
        "greedy_func", "get_greedy_rewards", "add_greedy_parser", "EPSILON", "np", "partial", "Random", "Output", "save")))

    rng = np.random.default_rng(31337)

    # ---------------------------------------------------------------------------------------------------------------
    # A. file stems
    # ---------------------------------------------------------------------------------------------------------------
    alphabet = list("%/\\25FC.ab -_:") + ["%2", "%25", "%2F", "%5C", "..", "\u00e9", "\n"]
    names = ["", "%", "/", "\\", "%25", "%2F", "a/b", "a\\b", "2024-02-29T12:00:00.123", "..", ".", "a%2Fb", "a/b%5Cc\\d"]
    for _ in range(2500):
        names.append("".join(alphabet[i] for i in rng.integers(0, len(alphabet), size=rng.integers(0, 12))))
    for i, name in enumerate(names):
        rec(f"stem/{i}", attempt(S._file_stem, name))

    class MyStr(str):
        def replace(self, *a):  # noqa
            return MyStr(str.replace(self, *a) + "!")
    for i, bad in enumerate((None, 3, b"a/b", Path("a/b"), ["a"], MyStr("a/b%"))):
        rec(f"stem-bad/{i}", attempt(S._file_stem, bad))

    lap("before B")
    # ---------------------------------------------------------------------------------------------------------------
    # B. the fallback serializer
    # ---------------------------------------------------------------------------------------------------------------
    class Odd:
        def __init__(self, x):
            self.x = x

        def __repr__(self):
            return f"Odd<{self.x}>"

    class MyPath(type(Path())):
        pass

    class Raises:
        def __repr__(self):
            raise RuntimeError("no repr")

    odd_values = [Path("/x/y/z"), Path("."), Path("rel/a.b"), MyPath("sub/class"), PurePosixPath("/pure/posix"),
                  PureWindowsPath("c:/pure/win"), "string", 3, 2.5, None, True, {1, 2}, frozenset({3}), (1, 2), b"bytes",
                  3 + 4j, np.int64(3), np.float32(1.5), np.float64(2.5), np.arange(3), np.array([[1.5, np.nan]]),
                  Odd(1), Odd("p/q"), range(3), Namespace(a=1), Ellipsis, int, Raises()]
    for i, v in enumerate(odd_values):
        rec(f"serializer/{i}", attempt(json_serializer, v))
        rec(f"serializer-dumps/{i}", attempt(json.dumps, {"v": v, "l": [v]}, default=json_serializer))

    lap("before C")
    # ---------------------------------------------------------------------------------------------------------------
    # C. Output conversions
    # ---------------------------------------------------------------------------------------------------------------
    def eval_like(x):  # "eval" in its repr
        return x

    def learn_like(x):
        return x

    def rand_matrix(rows, cols, kind):
        m = rng.normal(size=(rows, cols)) * 10.0**rng.integers(-3, 12)
        if kind % 4 == 1:
            m[rng.random(size=m.shape) < 0.4] = np.nan
        elif kind % 4 == 2:
            m = -np.abs(m)
        elif kind % 4 == 3:
            m = np.rint(m)
        return m

    def rand_actions(rows, cols, kind, top=16):
        a = rng.integers(0, top, size=(rows, cols)).astype(float)
        if kind % 3 == 1:
            a[rng.random(size=a.shape) < 0.3] = np.nan
        elif kind % 3 == 2:
            return a.astype(int)
        return a

    def rand_namespace(kind):
        funcs = ["eval", "learn", "evaluation", "x"]
        d = {"foo": "bar", "baz": int(rng.integers(0, 100))}
        k = kind % 8
        if k == 0:
            d["func"] = funcs[kind % 4]
        elif k == 1:   # run_type already there, before func: position must be kept
            d = {"run_type": "old", **d, "func": "eval", "after": 1}
        elif k == 2:   # non-JSON values
            d.update(func="learn", path=Path("some/dir"), model_path=None, values={1, 2, 3}, obj=Odd(5), z=3 + 1j,
                     npi=np.int64(7), npf=np.float64(0.25), arr=np.arange(3), tup=(1, "a"), nested={"p": Path("q")})
        elif k == 3:   # no func at all
            pass
        elif k == 4:
            d["func"] = Odd("evaluate")
            d["run_type"] = "stale"
        elif k == 5:
            d["func"] = None
        elif k == 6:
            d = {"func": "learn"}
        else:
            d["func"] = Odd("solve")
            d["nan"] = float("nan")
            d["inf"] = float("inf")
        return Namespace(**d)

    outputs = []
    for i in range(400):
        rows, cols = int(rng.integers(1, 6)), int(rng.integers(1, 5))
        ns = rand_namespace(i)
        o = Output(rand_matrix(rows, cols, i), rand_actions(max(rows - 1, 1), cols, i), ns)
        outputs.append(o)
        before = dict(vars(ns))
        rec(f"output/{i}/metadata", attempt(lambda: o.metadata))
        rec(f"output/{i}/metadata-fresh", attempt(lambda: o.metadata is not o.metadata and vars(ns) == before
                                                  and list(vars(ns)) == list(before)))
        rec(f"output/{i}/json", attempt(lambda: o.json))
        rec(f"output/{i}/lists", attempt(lambda: (o.data_list, o.actions_list, o.data_avg_final, o.avg_data)))
        try:
            text = json.dumps(o.json, default=json_serializer)
        except BaseException as e:  # noqa
            rec(f"output/{i}/dumps", canon(e))
            continue
        rec(f"output/{i}/dumps", text)
        loaded = json.loads(text)
        rec(f"output/{i}/from_json", attempt(lambda: output_canon(Output.from_json(loaded))))
        rec(f"output/{i}/from_json-arg", canon(loaded))   # the argument is consumed: same leftovers
    # functions as `func`: the repr decides the run type (addresses are not recorded, only the decision)
    for i, f in enumerate((eval_like, learn_like, partial(eval_like, 1), partial(learn_like, x=2), print, eval)):
        o = Output(np.ones((2, 2)), np.zeros((1, 2)), Namespace(func=f, a=1))
        rec(f"output-func/{i}", attempt(lambda: o.metadata))
    for i, bad in enumerate(({}, {"metadata": {}}, {"metadata": {"run_type": "eval"}},
                             {"metadata": {"run_type": "eval"}, "data": [[1.0]]},
                             {"metadata": {"run_type": "eval"}, "data": [["x"]], "actions": [[1]]},
                             {"metadata": {"run_type": "eval"}, "data": [[1.0]], "actions": [[1]], "extra": 1},
                             {"metadata": {"run_type": "eval", "1": 2}, "data": [[1.0], [2.0, 3.0]], "actions": []},
                             None, [])):
        rec(f"from_json-bad/{i}", attempt(lambda: output_canon(Output.from_json(bad))))
        rec(f"from_json-bad-arg/{i}", canon(bad))
        rec(f"get_outputs-bad/{i}", attempt(lambda: get_outputs({"k": bad})))

    lap("before D")
    # ---------------------------------------------------------------------------------------------------------------
    # D. sequences of save_json (relative paths: the working directory is private to this run)
    # ---------------------------------------------------------------------------------------------------------------
    name_pool = ["a", "b", "a/b", "a%2Fb", "x.y", "2024-02-29T12:00:00.5", "", " ", "\u00e9", "a\\b", "%", "data.json"]
    for seq in range(60):
        path = Path(f"D/{seq}/sub/data.json") if seq % 3 else Path(f"D/{seq}/data.json")
        if seq % 3 == 0:
            path.parent.mkdir(parents=True)
        elif seq % 3 == 1:
            path.parent.mkdir(parents=True)
            path.write_text({1: "[]", 4: "{not json", 7: '{"a": 5}', 10: ""}.get(seq, "{}"))
        elif seq % 6 == 5:
            path.parent.mkdir(parents=True)
        # seq % 6 == 2: the directory does not exist
        for step in range(8):
            name = name_pool[int(rng.integers(0, len(name_pool)))]
            o = outputs[int(rng.integers(0, len(outputs)))]
            tag = f"save_json/{seq}/{step}"
            rec(tag, attempt(save_json, path, name, o))
            rec(tag + "/tree", tree(f"D/{seq}"))
            rec(tag + "/bytes", path.read_bytes() if path.is_file() else None)
            rec(tag + "/from_file", attempt(lambda: output_canon(Output.from_file(path, name))))
            rec(tag + "/all", attempt(lambda: tuple((k, output_canon(v)) for k, v in get_outputs_from_file(path).items())))
        rec(f"save_json/{seq}/missing-name", attempt(Output.from_file, path, "never saved"))
    rec("from_file/missing", attempt(Output.from_file, Path("D/nowhere/data.json"), "a"))
    rec("outputs_from_file/missing", attempt(get_outputs_from_file, Path("D/nowhere/data.json")))
    rec("from_file/dir", attempt(Output.from_file, Path("D"), "a"))
    rec("from_file/str", attempt(Output.from_file, "D/0/data.json", "a"))
    rec("outputs_from_file/str", attempt(get_outputs_from_file, "D/0/data.json"))

    lap("before E")
    # ---------------------------------------------------------------------------------------------------------------
    # E. full saves, plots included
    # ---------------------------------------------------------------------------------------------------------------
    good = [o for o in outputs if "func" in vars(o.parsed_args)]
    for seq in range(9):
        model_dir = Path(f"E/{seq}/model") if seq % 2 else Path(f"E/{seq}")
        if seq == 3:      # a results file that is not an object
            model_dir.mkdir(parents=True)
            (model_dir / "data.json").write_text("[1, 2]")
        if seq == 5:      # the plot directory of the run is already there
            (model_dir / "chosen_coalitions" / "a").mkdir(parents=True)
        if seq == 7:      # the model directory is a file
            model_dir.parent.mkdir(parents=True)
            model_dir.write_text("file")
        for step in range(3):
            name = ["a", "b", "a/b", "a%2Fb", "x.y", "a"][int(rng.integers(0, 6))]
            o = good[int(rng.integers(0, len(good)))]
            if step == 2 and seq % 2:  # a non-matrix: the plots fail after the record has been written
                o = Output(np.ones(3), np.zeros((1, 2)), Namespace(func="eval"))
            tag = f"save/{seq}/{step}/{name}"
            rec(tag, attempt(save, model_dir, name, o))
            rec(tag + "/tree", tree(f"E/{seq}"))
    for i, (name, o) in enumerate((("p", good[0]), ("q/r", good[1]), ("%", good[2]), (3, good[3]))):
        rec(f"plot/{i}", attempt(save_data_plot, Path(f"E/plots/{i}"), name, o))
        rec(f"coalitions/{i}", attempt(save_draw_coalitions, Path(f"E/coal/{i}"), name, o))
        rec(f"coalitions-again/{i}", attempt(save_draw_coalitions, Path(f"E/coal/{i}"), name, o))
        rec(f"plot/{i}/tree", tree("E/plots") + tree("E/coal"))

    lap("before F")
    # ---------------------------------------------------------------------------------------------------------------
    # F. the commands
    # ---------------------------------------------------------------------------------------------------------------
    def run_command(tag, add_parser, model_args, command_args):
        ap = ArgumentParser()
        add_model_arguments(ap)
        add_parser(ap.add_subparsers(required=True).add_parser("cmd"))
        parsed = ap.parse_args(model_args + ["cmd"] + command_args)
        instance = ModelInstance.from_parsed_arguments(parsed)
        rec(tag, attempt(parsed.func, instance, parsed))
        rec(tag + "/tree", tree(instance.model_dir))
        data = instance.model_dir / "data.json"
        rec(tag + "/bytes", data.read_bytes() if data.is_file() else None)
        rec(tag + "/back", attempt(lambda: tuple((k, output_canon(v)) for k, v in get_outputs_from_file(data).items())))

    i = 0
    for n, gen_name, limit, full in ((3, "factory", "3", True), (3, "graph_cycle", "2", False), (4, "xos3", "2", False)):
        base = ["--number-of-players", str(n), "--game-generator", gen_name, "--run-steps-limit", limit,
                "--parallel-environments", "1", "--seed", str(1000 + n)]
        for rand in (False, True):
            i += 1
            run_command(f"cmd/greedy/{n}/{gen_name}/{rand}", partial(add_greedy_parser, randomize=rand),
                        base + ["--model-dir", f"F/{i}", "--unique-name", f"run/{i}"], ["--sampling-repetitions", "2"])
            if full:
                # once more into the same directory: a second name, then the first name again
                run_command(f"cmd/greedy2/{n}/{gen_name}/{rand}", partial(add_greedy_parser, randomize=rand),
                            base + ["--model-dir", f"F/{i}", "--unique-name", f"run2/{i}", "--gap-function", "l1_norm"],
                            ["--sampling-repetitions", "1"])
                run_command(f"cmd/greedy3/{n}/{gen_name}/{rand}", partial(add_greedy_parser, randomize=rand),
                            base + ["--model-dir", f"F/{i}", "--unique-name", f"run/{i}"], ["--sampling-repetitions", "3"])
        for solver in ("greedy", "random", "largest") if full else ("random",):
            i += 1
            run_command(f"cmd/solve/{n}/{gen_name}/{solver}", add_solve_parser,
                        base + ["--model-dir", f"F/{i}", "--unique-name", f"solve.{i}"],
                        ["--solve-repetitions", "2", "--solver", solver])
        if n == 3:
            i += 1
            run_command(f"cmd/best_states/{n}/{gen_name}", add_best_states_parser,
                        base + ["--model-dir", f"F/{i}", "--unique-name", f"best {i}"],
                        ["--sampling-repetitions", "2", "--eval-repetitions", "2"])
    # a limit of zero steps: an empty sequence of actions
    run_command("cmd/greedy/zero", add_greedy_parser,
                ["--number-of-players", "3", "--run-steps-limit", "0", "--parallel-environments", "1", "--seed", "5",
                 "--model-dir", "F/zero", "--unique-name", "zero"], ["--sampling-repetitions", "1"])

    lap("end")
    with open(out_path, "wb") as f:
        pickle.dump(results, f, protocol=4)


# --------------------------------------------------------------------------------------------------------------------
def main():
    with tempfile.TemporaryDirectory(prefix="equiv3_") as tmp:
        orig = os.path.join(tmp, "orig")
        os.makedirs(orig)
        archive = subprocess.Popen(["git", "-C", WORKTREE, "archive", "HEAD", "incomplete_cooperative"],
                                   stdout=subprocess.PIPE)
        subprocess.check_call(["tar", "-x", "-C", orig], stdin=archive.stdout)
        assert archive.wait() == 0
        loaded = {}
        raw = {}
        second = orig if "--selfcheck" in sys.argv else WORKTREE  # --selfcheck: original against itself (determinism)
        for label, root in (("orig", orig), ("new", second)):
            out = os.path.join(tmp, label + ".pkl")
            run_dir = os.path.join(tmp, "run_" + label)  # the workload writes below relative paths
            os.makedirs(run_dir)
            env = dict(os.environ, PYTHONPATH=root, OMP_NUM_THREADS="1", PYTHONHASHSEED="0", MPLBACKEND="Agg",
                       PYTHONDONTWRITEBYTECODE="1")
            subprocess.check_call([sys.executable, os.path.abspath(__file__), "--driver", out, root],
                                  env=env, cwd=run_dir)
            with open(out, "rb") as f:
                raw[label] = f.read()
            loaded[label] = pickle.loads(raw[label])
    a, b = loaded["orig"], loaded["new"]
    bad = 0
    if len(a) != len(b):
        print(f"DIFFERENT number of outcomes: {len(a)} vs {len(b)}")
        bad += 1
    for (ta, va), (tb, vb) in zip(a, b):
        if ta != tb or va != vb:
            bad += 1
            if bad < 20:
                print("DIFF at", ta, tb, "\n   orig:", repr(va)[:300], "\n   new: ", repr(vb)[:300])
    nexc = sum(1 for _, v in a if isinstance(v, tuple) and v and v[0] == "exc")
    print(f"{len(a)} outcomes compared ({nexc} of them exceptions), pickles byte-equal: {raw['orig'] == raw['new']}, "
          f"differences: {bad}")
    sys.exit(1 if bad else 0)


if __name__ == "__main__":
    if len(sys.argv) > 1 and sys.argv[1] == "--driver":
        driver(sys.argv[2], sys.argv[3])
    else:
        main()
