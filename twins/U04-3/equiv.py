"""Differential test for refactoring 3 (game_properties.py: de Morgan form of the predicate loops).

Run with cwd=/tmp/wt10/U04.  Loads the ORIGINAL package source from git HEAD under the name `icg_orig`
and the refactored one from the worktree and compares is_superadditive / is_monotone_decreasing / is_sam
(results, result types, exceptions, calls made on the game) on many games, including near-ties within and
just outside the tolerance, nan and inf values, and every registry generator that asserts the predicates.
"""
import atexit
import importlib
import re
import shutil
import subprocess  # nosec
import sys
import tempfile
import warnings
from pathlib import Path

import numpy as np

WT = "/tmp/wt10/U04"
ORIG = "icg_orig"


def load_original():
    tmp = Path(tempfile.mkdtemp(prefix="icg_orig_"))
    files = subprocess.check_output(  # nosec
        ["git", "-C", WT, "ls-tree", "-r", "--name-only", "HEAD", "incomplete_cooperative"], text=True).split("\n")
    for f in files:
        if not f.endswith(".py") or "/tests/" in f:
            continue
        src = subprocess.check_output(["git", "-C", WT, "show", f"HEAD:{f}"], text=True)  # nosec
        src = re.sub(r"\bincomplete_cooperative\b", ORIG, src)
        dest = tmp / ORIG / Path(f).relative_to("incomplete_cooperative")
        dest.parent.mkdir(parents=True, exist_ok=True)
        dest.write_text(src)
    sys.path.insert(0, str(tmp))
    atexit.register(shutil.rmtree, str(tmp), ignore_errors=True)
    return tmp


load_original()
sys.path.insert(0, WT)


def mods(pkg):
    return {name: importlib.import_module(f"{pkg}.{name}")
            for name in ["game_properties", "game", "coalitions", "generators", "graph_game"]}


O = mods(ORIG)
N = mods("incomplete_cooperative")
assert N["game_properties"].__file__.startswith(WT)
assert not O["game_properties"].__file__.startswith(WT)


class CountingGame:
    """Minimal Game: records the calls the predicates make."""

    def __init__(self, n, values):
        self._n = n
        self._values = values
        self.log = []

    @property
    def number_of_players(self):
        self.log.append("number_of_players")
        return self._n

    def get_values(self, coalitions=None):
        self.log.append(("get_values", coalitions))
        return self._values


def call(fn, *args, **kwargs):
    with warnings.catch_warnings(record=True) as w:
        warnings.simplefilter("always")
        try:
            r = fn(*args, **kwargs)
            out = ("ok", type(r).__name__, bool(r))
        except Exception as e:  # noqa
            out = ("exc", type(e).__name__, str(e))
    return out + (tuple((x.category.__name__, str(x.message)) for x in w),)


def predicates(M):
    gp = M["game_properties"]
    yield "is_superadditive", gp.is_superadditive
    yield "is_superadditive(rtol=1e-3)", lambda g: gp.is_superadditive(g, rtol=1e-3)
    yield "is_superadditive(1e-12, 1e-6)", lambda g: gp.is_superadditive(g, 1e-12, 1e-6)
    yield "is_superadditive(rtol=0)", lambda g: gp.is_superadditive(g, rtol=0)
    yield "is_monotone_decreasing", gp.is_monotone_decreasing
    yield "is_sam", gp.is_sam


def value_arrays(n, seed):
    rng = np.random.default_rng(31 * n + seed)
    size = 2**n
    sizes = np.array([bin(i).count("1") for i in range(size)], dtype=float)
    yield "additive", sizes * rng.random()
    w = rng.random(n)
    add = np.array([sum(w[p] for p in range(n) if i >> p & 1) for i in range(size)])
    yield "additive_weights", add
    yield "neg_additive_weights", -add
    yield "square", sizes ** 2
    yield "neg_min_k", -np.minimum(sizes, rng.integers(1, n + 1))
    yield "normal", np.concatenate([[0.0], rng.normal(size=size - 1)])
    yield "ints", np.concatenate([[0.0], rng.integers(-3, 4, size=size - 1).astype(float)])
    yield "int_dtype", np.concatenate([[0], rng.integers(-3, 4, size=size - 1)])
    # near ties: additive games perturbed around the tolerance
    for scale in (1e-12, 1e-10, 1e-9, 2e-9, 1e-8, 1e-6):
        pert = add + scale * add.max() * rng.uniform(-1, 1, size=size)
        pert[0] = 0
        yield f"additive_pert_{scale}", pert
        pert = -np.minimum(sizes, 2) + scale * rng.uniform(-1, 1, size=size)
        pert[0] = 0
        yield f"kbudget_pert_{scale}", pert
    for special in (np.nan, np.inf, -np.inf):
        v = add.copy()
        v[rng.integers(1, size)] = special
        yield f"additive_with_{special}", v
        v = -add.copy()
        v[rng.integers(1, size)] = special
        yield f"neg_additive_with_{special}", v
    yield "all_nan", np.full(size, np.nan)
    yield "all_inf", np.concatenate([[0.0], np.full(size - 1, np.inf)])
    yield "zero", np.zeros(size)


def main():
    cases = 0
    outcomes: dict = {}
    # 1. raw value arrays on a minimal game object, and on IncompleteCooperativeGame of either package
    for n in (1, 2, 3, 4, 5):
        for seed in range(6):
            for vname, values in value_arrays(n, seed):
                for (pname, po), (_, pn) in zip(predicates(O), predicates(N)):
                    go, gn = CountingGame(n, values), CountingGame(n, values)
                    a, b = call(po, go), call(pn, gn)
                    cases += 1
                    outcomes[a[:3] if a[0] == 'ok' else a[:2]] = outcomes.get(a[:3] if a[0] == 'ok' else a[:2], 0) + 1
                    if a != b or go.log != gn.log:
                        print("DIFFERENT")
                        print("case:", dict(n=n, seed=seed, values=vname, predicate=pname, game="CountingGame"))
                        print("values:", values.tolist())
                        print("original :", a, go.log)
                        print("refactored:", b, gn.log)
                        return 1
                    io = O["game"].IncompleteCooperativeGame(n)
                    inn = N["game"].IncompleteCooperativeGame(n)
                    io.set_values(values)
                    inn.set_values(values)
                    a, b = call(po, io), call(pn, inn)
                    cases += 1
                    if a != b or not np.array_equal(io._values, inn._values, equal_nan=True):
                        print("DIFFERENT")
                        print("case:", dict(n=n, seed=seed, values=vname, predicate=pname, game="IncompleteCooperativeGame"))
                        print("values:", values.tolist())
                        print("original :", a)
                        print("refactored:", b)
                        return 1
    # 2. incomplete games: get_values raises
    for n in (2, 3):
        for (pname, po), (_, pn) in zip(predicates(O), predicates(N)):
            io = O["game"].IncompleteCooperativeGame(n)
            inn = N["game"].IncompleteCooperativeGame(n)
            a, b = call(po, io), call(pn, inn)
            cases += 1
            if a != b or a[0] != "exc":
                print("DIFFERENT")
                print("case: incomplete game", n, pname, a, b)
                return 1
    # 3. registry generators (several assert is_superadditive / is_sam inside) and the predicates on their output
    skip = {"convex"}  # needs pyfmtools
    names = [k for k in N["generators"].GENERATORS if k not in skip]
    assert list(O["generators"].GENERATORS) == list(N["generators"].GENERATORS)
    for gname in names:
        for n in (3, 4):
            for seed in range(2):
                if gname == "oxs" and n > 3:
                    continue
                res = []
                for M in (O, N):
                    M["generators"]._gen = np.random.default_rng(seed)  # used by the default dist_fn of "graph"
                    M["generators"]._LAST_OWNER = 0
                    try:
                        g = M["generators"].GENERATORS[gname](n, np.random.default_rng(seed))
                        out = ("ok", np.array(g.get_values(), dtype=float))
                    except Exception as e:  # noqa
                        g = None
                        out = ("exc", type(e).__name__, str(e))
                    preds = tuple(call(p, g) for _, p in predicates(M)) if g is not None else ()
                    res.append((out, preds))
                (ao, po_), (an, pn_) = res
                cases += 1
                ok = ao[0] == an[0] and po_ == pn_ and (
                    np.array_equal(ao[1], an[1], equal_nan=True) if ao[0] == "ok" else ao == an)
                # generators bound to the module-level _gen at import time draw from different streams in the
                # two packages: compare only the predicates there, on identical values
                if not ok and ao[0] == "ok" and an[0] == "ok" and not np.array_equal(ao[1], an[1], equal_nan=True):
                    vals = an[1]
                    go, gn = CountingGame(n, vals), CountingGame(n, vals)
                    ok = all(call(p1, go) == call(p2, gn) for (_, p1), (_, p2) in zip(predicates(O), predicates(N)))
                if not ok:
                    print("DIFFERENT")
                    print("case:", dict(generator=gname, n=n, seed=seed))
                    print("original :", ao, po_)
                    print("refactored:", an, pn_)
                    return 1
    print(f"{cases} cases; outcomes of the original on raw arrays: {outcomes}")
    print("EQUIVALENT")
    return 0


if __name__ == "__main__":
    sys.exit(main())
